"""C07 — statements leave the operand stack balanced."""
from .lib import hir as H
from .lib import e5run
from .lib import helpers_model
from .lib.vmarms import definitions_table
from .lib.vmeffects import Lin

EXPL = ("Emission verifier (E5) over the compiler's own code, with the VM's per-opcode stack effects (E6) computed from "
        "VM::run. E6: for every opcode arm the change of sp along every success path (push +1, pop -1, `sp -= n`, helper "
        "methods summarised, frame entry/exit resolved through Frame::new / pop_frame) must be one affine function of the "
        "operands; the two ways a Call completes (closure frame + Return, builtin) must agree. E5: every arm of "
        "compile_statement and compile_expression (and the functions they call, inlined) is interpreted abstractly over "
        "its HIR, under every compilation scope kind, every shape of the blocks involved and every outcome of a test the "
        "analysis cannot decide, tracking the height of the emitted code, the class of the last instruction, pending jump "
        "placeholders with the height they carry, and loop_stack. Obligations: a statement arm ends at the height it "
        "started with (or with an unreachable end of stream); an expression arm adds exactly its class effect (value +1, "
        "assignment target 0, property read 0 / write -1); every jump lands where fall-through has the same height; "
        "remove_last_pop/replace_last_pop_with_return act on a Pop that no jump lands behind; a filter scope ends with "
        "exactly the one value pop_filter_frame pops; break/continue jumps are emitted at the height of the loop's body "
        "statements. The primitives' model (emit, patch_jump, …) is compared with their code. Decides the emitted code's "
        "height bookkeeping for every program shape (induction over the AST), not run-time values.")

C = "compiler::Compiler::"
PRIMS = ["emit", "patch_jump", "remove_last_pop", "replace_last_pop_with_return", "enter_scope", "leave_scope", "change_operand",
         "replace_instruction", "add_instruction", "set_last_instruction"]


def parser_rules(F, R):
    """what the emission verifier assumes about the AST the parser hands over, as far as it is visible in the parser's code"""
    f = F.fn("parser::Parser::parse_filter_statement")
    if R.anchor("Parser::parse_filter_statement", f):
        b = H.body_of(f)
        txt = "\n".join(H.render(x) for x in H.walk(b) if x.get("k") in ("if", "let"))
        ok1 = "if (pattern.is_none() && action.is_none())" in txt.replace("FilterPattern::is_none(&pattern)", "pattern.is_none()")
        # the guard must precede the construction of the statement and leave with Invalid
        guard = [x for x in H.walk(b) if x.get("k") == "if" and "pattern.is_none()" in H.render(x["c"]) and "action.is_none()" in H.render(x["c"])]
        ok1 = bool(guard) and H.diverges(guard[0]["t"]) and "Statement::Invalid" in H.render(guard[0]["t"])
        R.ob("parser-contract", "a filter statement without pattern and without action is rejected (Statement::Invalid + error)", ok1,
             H.render(guard[0])[:160] if guard else "guard not found", F.loc(f))
        endb = [x for x in H.walk(b) if x.get("k") == "if" and "TokenType::End" in H.render(x["c"])]
        ok2 = False
        if endb:
            inner = [y for y in H.walk(endb[0]["t"]) if y.get("k") == "if" and "LeftBrace" in H.render(y["c"]) and H.diverges(y["t"])]
            ok2 = bool(inner) and H.render(inner[0]["c"]).startswith("!")
        R.ob("parser-contract", "an `end` pattern is accepted only when a block follows", ok2, H.render(endb[0])[:200] if endb else "not found", F.loc(f))
    # Expression::Prop is constructed only by parse_identifier (as the property of a dot expression)
    makers = set()
    for p, g in F.fns.items():
        b = H.body_of(g)
        if b is None or not p.startswith("parser::"):
            continue
        for x in H.walk(b):
            if x.get("k") == "call" and x.get("ctor") == "parser::ast::expr::Expression::Prop":
                makers.add(p)
    R.ob("parser-contract", "Expression::Prop nodes are built only by parse_identifier", makers == {"parser::rules::<impl parser::Parser>::parse_identifier"}, str(sorted(makers)))
    setters = set()
    for p, g in F.fns.items():
        b = H.body_of(g)
        if b is None or not p.startswith("parser::"):
            continue
        for x in H.walk(b):
            if x.get("k") == "path" and x["res"].get("path") == "parser::ast::expr::AccessType::Set" and x["res"]["r"] in ("ctor", "variant"):
                setters.add(p)
    R.ob("parser-contract", "AccessType::Set is produced only by peek_access_type (next token is `=`), the let-statement name and the precedence choice of parse_dot_expression",
         setters <= {"parser::rules::<impl parser::Parser>::peek_access_type", "parser::Parser::parse_let_statement", "parser::rules::<impl parser::Parser>::parse_dot_expression"},
         str(sorted(setters)))


def run(F, R, tier):
    R.explanation = EXPL
    R.assumptions += [
        "A-access: the parser marks a node with Set access only when `=` follows it, so a Set-mode node is the root of an assignment's target (checked where visible: "
        "who builds Set / Prop); the compiler's own guards (assignment target, property) are what E5 relies on",
        "Expression::Invalid / Statement::Invalid are accompanied by a parse error, and a program with errors is not run (C01)",
        "run-time values, and faults inside builtins, are outside this property",
    ]
    res = e5run.analyse(F, R)
    defs = definitions_table(F, R)
    helpers_model.check(F, R, defs)
    parser_rules(F, R)
    if res.get("effects") is not None:
        R.count("opcodes with a computed stack effect", len(res["effects"]))
        R.floor("opcodes with a computed stack effect", len(res["effects"]), 48)
        R.note("frame rule: %s" % res.get("frames"))
    if not res["ok"]:
        R.ob("emission-verifier", "the compiler's code is inside the fragment the verifier interprets", False,
             "unsupported construct: %s — the abstract interpreter must be extended before the property can be decided" % res.get("unsupported"))
        return
    eng = res["engine"]
    n_paths = 0
    # ---- expression arms ---------------------------------------------------------------------------------------------------
    f = F.fn(C + "compile_expression")
    for (var, ctx), r in sorted(res["expr"].items()):
        oks = [s for t, s in r["ends"] if t == "ok"]
        n_paths += len(r["ends"])
        by_acc = {}
        for s in oks:
            by_acc.setdefault((e5run.access_of(s, r["pname"], var), e5run.left_of(s, r["pname"], var) if var == "Assign" else None), []).append(s)
        if var == "Invalid":
            R.ob("expr-arm-effect", "Expression::Invalid [%s]" % ctx, all(s.h == Lin(0) for s in oks), "emits nothing (a parse error accompanies it)", F.loc(f), nontrivial=False)
            continue
        if not oks:
            R.ob("expr-arm-effect", "Expression::%s [%s]" % (var, ctx), True, "always a compile error", F.loc(f), nontrivial=False)
            continue
        for (acc, left), ss in sorted(by_acc.items(), key=repr):
            cls = e5run.expected_class(var, acc, left)
            if cls is None:
                R.note("Expression::%s with Set access is compiled like a value; it is unreachable behind the assignment-target guard" % var)
                continue
            want = Lin(e5run.CLASS_EFFECT[cls])
            got = sorted({e5run.fmt_h(s.h) for s in ss})
            ok = all(s.h is not None and s.h == want for s in ss)
            tag = ("access=%s " % acc if acc else "") + ("target=%s " % left if left else "")
            R.ob("expr-arm-effect", "Expression::%s %s[%s]" % (var, tag, ctx), ok,
                 "%d paths; height change %s, class %s requires %s" % (len(ss), got, cls, want), F.loc(f))
            fl = Lin(e5run.CLASS_FLOOR[cls])
            from .lib.vmeffects import lmin
            okf = all(lmin(s.minh, fl) == fl for s in ss)
            R.ob("expr-arm-floor", "Expression::%s %s[%s]" % (var, tag, ctx), okf,
                 "lowest height reached %s; class %s may reach %s" % (sorted({repr(s.minh) for s in ss}), cls, fl), F.loc(f))
            okl = all(s.last in ("Other",) for s in ss)
            R.ob("expr-arm-last", "Expression::%s %s[%s]" % (var, tag, ctx), okl,
                 "last instruction classes %s (an expression must not end in a Pop the enclosing block could remove)" % sorted({s.last for s in ss}), F.loc(f), nontrivial=False)
    # ---- statement arms -----------------------------------------------------------------------------------------------------
    g = F.fn(C + "compile_statement")
    for (var, ctx), r in sorted(res["stmt"].items()):
        oks = [s for t, s in r["ends"] if t == "ok"]
        n_paths += len(r["ends"])
        got = sorted({e5run.fmt_h(s.h) for s in oks})
        ok = all(s.h is None or s.h == Lin(0) for s in oks)
        R.ob("stmt-arm-balance", "Statement::%s [%s]" % (var, ctx), ok, "%d paths; height change %s" % (len(oks), got), F.loc(g), nontrivial=bool(oks))
        from .lib.vmeffects import lmin
        R.ob("stmt-arm-floor", "Statement::%s [%s]" % (var, ctx), all(lmin(s.minh, Lin(0)) == Lin(0) for s in oks),
             "lowest height reached %s (a statement must not consume operands it did not push)" % sorted({repr(s.minh) for s in oks}), F.loc(g), nontrivial=bool(oks))
        R.ob("stmt-arm-loopstack", "Statement::%s [%s]" % (var, ctx), all(s.ls == 0 for s in oks), "loop_stack depth change %s" % sorted({s.ls for s in oks}), F.loc(g), nontrivial=False)
        R.ob("stmt-arm-jumps-patched", "Statement::%s [%s]" % (var, ctx), all(not s.pend for s in oks), "unpatched placeholders %s" % sorted({tuple(sorted(s.pend)) for s in oks if s.pend}), F.loc(g),
             nontrivial=bool(oks))
        lasts = {s.last for s in oks}
        if var == "Expr":
            R.ob("stmt-last-class", "Statement::Expr ends with its own Pop", lasts <= {"Pop"} and all(not s.landed and s.prev == "Other" for s in oks), str(sorted(lasts)), F.loc(g))
        elif var not in ("Block",):
            R.ob("stmt-last-class", "Statement::%s [%s] does not end in a Pop" % (var, ctx), "Pop" not in lasts and "Unknown" not in lasts, str(sorted(lasts)), F.loc(g), nontrivial=False)
    R.count("abstract paths through compile_statement / compile_expression arms", n_paths)
    R.floor("abstract paths", n_paths, 900)
    # ---- block / statement lists ----------------------------------------------------------------------------------------------
    for nm in ("block", "stmts"):
        ends = res[nm]["main"]
        ok = all(s.h is None or s.h == Lin(0) for t, s in ends if t == "ok") and any(t == "ok" for t, s in ends)
        R.ob("block-balance", "compile_%s keeps the height" % ("block_statement" if nm == "block" else "statements"), ok, str(sorted({e5run.fmt_h(s.h) for t, s in ends})))
    # ---- violations found along the way ---------------------------------------------------------------------------------------------
    seen = set()
    for v in res["viol"]:
        rule, key, detail, line, facts = v
        if rule == "filter-result" and facts.get("v:$:Filter.pattern") in ("None", "End") and facts.get("some:$:Filter.action") is False:
            # excluded by the parser (parser-contract rules above)
            continue
        if (rule, key) in seen:
            continue
        seen.add((rule, key))
        R.ob(rule, key, False, detail, "src/compiler/mod.rs:%s" % line if line else "")
    # ---- break / continue depth ---------------------------------------------------------------------------------------------------
    jump_kinds = set()
    for (var, ctx), r in res["stmt"].items():
        for t, s in r["ends"]:
            for ev in s.events:
                if ev[0] in ("break", "continue"):
                    jump_kinds.add((var, ev[0]))
    for var, kind in sorted(jump_kinds):
        E = e5run.exit_offsets(res, (kind,))
        deep = {o: w for (o, corr), w in E["block"].items() if o > 0}
        w = deep.get(min(deep)) if deep else None
        R.ob("loop-exit-depth", "%s: the jump is emitted at the height of the loop's body statements" % var, not deep,
             "a %s can be compiled while operands of an enclosing expression are on the stack, and its bare Jump leaves them there: %s" % (var.lower(), w) if deep else
             "no expression position reaches a %s" % var.lower(), F.loc(g))
    for var in ("Loop", "While"):
        r = res["stmt"].get((var, "fn"))
        oks = [s for t, s in r["ends"] if t == "ok"] if r else []
        evs = {e for s in oks for e in s.events if e[0] == "loop-begin"}
        if any(len(e) > 2 and e[2] is not None for e in evs):
            # the compiler counts pending operands: the loop must record the count it starts with
            R.ob("loop-depth-recorded", "%s: the loop context records the operand depth at which the loop starts" % var,
                 all(len(e) > 2 and e[2] == (0, ()) for e in evs), str(sorted(evs, key=repr)), F.loc(g))
    R.floor("break/continue jump sites", len(jump_kinds), 2)
    # ---- who may touch the instruction stream ---------------------------------------------------------------------------------------
    callers = {}
    for p, fn in F.fns.items():
        b = H.body_of(fn)
        if b is None:
            continue
        for c in H.walk(b):
            if c.get("k") in ("call", "mcall") and (c.get("callee") or "").startswith(C) and H.last(c["callee"]) in PRIMS:
                callers.setdefault(H.last(c["callee"]), set()).add(p)
    covered = {C + n for n in eng.visited} | {C + n for n in PRIMS}
    for prim in PRIMS:
        cs = callers.get(prim, set())
        extra = sorted(c for c in cs if c not in covered)
        R.ob("emission-covered", "every caller of %s is interpreted by the verifier" % prim, not extra, "callers outside the analysed set: %s" % extra if extra else "%d callers" % len(cs),
             nontrivial=bool(cs))
    R.count("compiler methods interpreted", len(eng.visited))
