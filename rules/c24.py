"""C24 — script and command modes run a program the same way with the same argv.

Program outputs are not decided; the mode-independence of the driver is."""
import re

from .lib import hir as H
from .lib import mir as M

EXPL = ("Non-interference and provenance rules (E3) on main.rs / cliargs: both modes reach the same run_buf; the forward "
        "slice of its cmd_mode parameter reaches only the condition guarding the print of last_popped (itself also "
        "guarded by 'not filter mode' and 'not null'); run_file passes the file's text unmodified; CliArgs::new pushes the "
        "script path (if any) and then the remaining arguments in order, main hands that vector to run_buf / run_file / "
        "run_prompt, run_prompt is reached only when it is empty, and init_builtin_vars maps it element-wise into argv; a "
        "'#' starts a comment at any position including the first (shebang). Decides mode independence structurally.")


def run(F, R, tier):
    R.explanation = EXPL
    R.assumptions += ["clap's own parsing of `--` and dash-prefixed values is trusted"]
    mn, rb, rfile = F.fn("main"), F.fn("run_buf"), F.fn("run_file")
    if not (R.anchor("main", mn) and R.anchor("run_buf", rb) and R.anchor("run_file", rfile)):
        return
    # ---- (a) both modes reach run_buf; cmd_mode only guards the print of the last value ------------------------------------
    txt = H.render(H.body_of(mn))
    R.ob("mode-dispatch", "main: -c → run_buf(cmd, args, true, skip_pcap)", "if let v1::Some(cmd) = command {run_buf(cmd, args, true, skip_pcap); return" in txt, txt[:200], F.loc(mn))
    R.ob("mode-dispatch", "main: no arguments → run_prompt, else run_file(&args[0].clone(), args, skip_pcap)",
         "if args.is_empty() {run_prompt(args)} else {run_file(&args[0].clone(), args, skip_pcap)}" in txt, "", F.loc(mn))
    ft = H.render(H.body_of(rfile))
    R.ob("mode-dispatch", "run_file → run_buf(buf, args, false, skip_pcap) with the file's text unmodified",
         "let buf = fs::read_to_string(path)" in ft and "let buf = buf.unwrap(); run_buf(buf, args, false, skip_pcap)" in ft, ft[:200], F.loc(rfile))
    # uses of cmd_mode in run_buf
    pid = None
    for p in rb["hir"]["params"]:
        if p.get("name") == "cmd_mode":
            pid = p["id"]
    uses = [x for x in H.walk(H.body_of(rb)) if H.local_id(x) == pid]
    conds = [x for x in H.walk(H.body_of(rb)) if x.get("k") == "if" and any(H.local_id(y) == pid for y in H.walk(x["c"]))]
    ok = len(uses) == 1 and len(conds) == 1 and H.render(conds[0]["c"]) == "(cmd_mode && !filter_mode)"
    R.ob("cmd-mode-noninterference", "cmd_mode is read exactly once, in the guard of the last-value print", ok,
         "%d uses; guard %s" % (len(uses), H.render(conds[0]["c"]) if conds else None), F.loc(rb))
    if conds:
        t = H.render(conds[0]["t"])
        ok = "let stack_elem = vm.last_popped()" in t and "if !match stack_elem.as_ref() {Object::Null => true; _ => false}" in t and "e" not in conds[0]
        calls = [H.last(c.get("callee") or c.get("m") or "") for c in H.walk(conds[0]["t"]) if c.get("k") in ("call", "mcall")]
        side = [c for c in calls if c not in ("last_popped", "as_ref", "write_fmt", "stdout", "new", "new_display", "Arguments::new")]
        R.ob("cmd-mode-noninterference", "the guarded block only prints the last popped value when it is not null", ok, "calls in the block: %s" % calls, F.loc(rb))
    # MIR cross-check: the only switch on cmd_mode
    B = M.Body(rb)
    sw = 0
    for bi, b in enumerate(B.blocks):
        t = b["term"]
        if t["k"] == "switch":
            s = B.sym_op(t["d"], through_vars=True)
            if "cmd_mode" in M.show(s):
                sw += 1
    R.ob("cmd-mode-noninterference", "MIR: exactly one branch depends on cmd_mode", sw == 1, "%d switches" % sw, F.loc(rb))
    # ---- (c) argv provenance -----------------------------------------------------------------------------------------------------
    cn = F.fn("cliargs::CliArgs::new")
    if R.anchor("CliArgs::new", cn):
        t = H.render(H.body_of(cn))
        ok = "let args = Vec::new(); if let v1::Some(script) = cliargs.script.clone() {args.push(script)}; args.extend_from_slice(cliargs.args.as_slice())" in t
        R.ob("argv-provenance", "CliArgs::new: argv = [script] ++ args, in order", ok, t[:260], F.loc(cn))
        muts = [x["m"] for x in H.walk(H.body_of(cn)) if x.get("k") == "mcall" and H.render(x["recv"]) == "args"]
        R.ob("argv-provenance", "argv is only built with push(script) then extend_from_slice(args)", muts == ["push", "extend_from_slice"], str(muts), F.loc(cn))
    # the command-line surface clap is told to parse: per argument, the behaviour-relevant builder calls of the derived
    # parser (help texts and value names are cosmetic).  `--`, dash-prefixed values and where options may appear are
    # decided by these settings: e.g. trailing_var_arg / allow_hyphen_values on `args` make a later `--` part of argv.
    au = F.fn("<cliargs::Args as clap::Args>::augment_args")
    if R.anchor("clap derive of cliargs::Args", au):
        COSMETIC = {"help", "long_help", "value_name", "about", "version", "author", "next_line_help", "display_order", "hide", "next_help_heading", "help_heading"}
        per, cur = {}, None
        seq = []
        for x in H.walk(H.body_of(au)):
            if x.get("k") in ("call", "mcall") and "clap" in str(x.get("callee") or ""):
                nm = H.last(x["callee"])
                lits = [H.strip(a).get("v") for a in x.get("args", []) if H.strip(a).get("k") == "lit"]
                seq.append((nm, lits))
        # the derive emits, per field: arg( <builder chain> Arg::new("<id>") ... ) — group the chain by the id that follows
        chain = []
        for nm, lits in seq:
            if nm == "arg":
                chain = []
                cur = None
                continue
            if nm == "new" and lits and isinstance(lits[0], str) and lits[0] in ("command", "script", "args", "skip_pcap") and cur is None and chain is not None:
                cur = lits[0]
                per[cur] = set(chain)
                continue
            if cur is not None and nm not in COSMETIC and nm != "new":
                per[cur].add(nm + (":" + ",".join(map(str, lits)) if lits else ""))
            elif cur is None and nm not in COSMETIC and nm != "new" and chain is not None:
                chain.append(nm + (":" + ",".join(map(str, lits)) if lits else ""))
        want = {"command": {"action", "value_parser", "long:command", "short:c"},
                "script": {"action", "value_parser"},
                "args": {"action", "value_parser", "num_args"},
                "skip_pcap": {"action", "value_parser", "required", "takes_values", "default_value", "long:skip-pcap", "short:s"}}
        for a_, w in want.items():
            R.ob("cli-surface", "argument `%s`" % a_, per.get(a_) == w, "parser settings %s (reference %s)" % (sorted(per.get(a_) or []), sorted(w)), F.loc(au))
    ga = F.fn("cliargs::CliArgs::get_args")
    if R.anchor("CliArgs::get_args", ga):
        R.ob("argv-provenance", "get_args returns the vector as built", H.render(H.body_of(ga)) == "self.args.as_slice()", H.render(H.body_of(ga)), F.loc(ga))
    R.ob("argv-provenance", "main passes cliargs.get_args().to_vec() unchanged", "let args = cliargs.get_args().to_vec()" in txt and
         len([x for x in H.walk(H.body_of(mn)) if x.get("k") == "mcall" and H.render(x["recv"]) == "args" and x["m"] not in ("is_empty",)]) == 0, "", F.loc(mn))
    ib = F.fn("init_builtin_vars")
    if R.anchor("init_builtin_vars", ib):
        t = H.render(H.body_of(ib))
        ok = "let elements = args.into_iter().map(|s| Rc::new(Object::Str(s))).collect()" in t and \
            "vm.update_builtin_var(BuiltinVarType::Argv, arr)" in t and "let arr = Rc::new(Object::Arr(Rc::new(Array::new(elements))))" in t
        R.ob("argv-provenance", "init_builtin_vars maps argv element-wise into the Argv variable", ok, t[:200], F.loc(ib))
    calls = [c for c in H.walk(H.body_of(rb)) if c.get("k") == "call" and c.get("callee") == "init_builtin_vars"]
    R.ob("argv-provenance", "run_buf passes its args to init_builtin_vars", len(calls) == 1 and H.render(calls[0]["args"]) == "&vm, args", "", F.loc(rb))
    # ---- (d) shebang: '#' starts a comment at any position ----------------------------------------------------------------------------
    sc = F.fn("scanner::Scanner::skip_comments")
    nt = F.fn("scanner::Scanner::next_token")
    if R.anchor("Scanner::skip_comments", sc) and R.anchor("Scanner::next_token", nt):
        t = H.render(H.body_of(sc))
        ok = "if ((self.ch == '#') || ((self.ch == '/') && (self.peek_char() == '/')))" in t and "(self.ch == '\n')" in t
        R.ob("shebang-comment", "'#' starts a comment up to end of line wherever it appears", ok, t[:200], F.loc(sc))
        order = [c["m"] for c in H.walk(H.body_of(nt)) if c.get("k") == "mcall" and c["m"] in ("skip_whitespace", "skip_comments")]
        R.ob("shebang-comment", "next_token skips whitespace and comments before every token", order[:2] == ["skip_whitespace", "skip_comments"], str(order), F.loc(nt))
