"""C24 — script and command modes run a program the same way with the same argv.

Program outputs are not decided; the mode-independence of the driver is."""
import re

from .lib import hir as H
from .lib import mir as M
from .lib import emit as E_

EXPL = ("Non-interference and provenance rules (E3) on main.rs / cliargs: both modes reach the same run_buf; the forward "
        "slice of its cmd_mode parameter reaches only the condition guarding the print of last_popped (itself also "
        "guarded by 'not filter mode' and 'not null'); run_file passes the file's text unmodified; CliArgs::new pushes the "
        "script path (if any) and then the remaining arguments in order, main hands that vector to run_buf / run_file / "
        "run_prompt, run_prompt is reached only when it is empty, and init_builtin_vars maps it element-wise into argv; a "
        "'#' starts a comment at any position including the first (shebang). Decides mode independence structurally.")


def run(F, R, tier):
    R.explanation = EXPL
    R.assumptions += ["clap's own parsing of `--` and dash-prefixed values is trusted"]
    mn, rb, rfile = F.fn("main"), F.fn("run_buf"), F.fn("run_file")
    if not (R.anchor("main", mn) and R.anchor("run_buf", rb) and R.anchor("run_file", rfile)):
        return
    from .lib import panics as P
    WRAP = re.compile(r"(::clone|::to_vec|::to_owned|::as_slice|::as_ref|::borrow|::deref|::into|::from|::as_str|::to_string)$")

    def origin(sym):
        """the value a term is a copy / view of: refs, derefs, casts, indexes by a constant and copy-like calls are looked through"""
        while True:
            if sym[0] in ("ref", "deref"):
                sym = sym[1]
            elif sym[0] == "cast":
                sym = sym[2]
            elif sym[0] == "call" and sym[1] and WRAP.search(sym[1]) and len(sym[2]) == 1:
                sym = sym[2][0]
            elif sym[0] == "call" and sym[1] and re.search(r"Option::<(&|&mut )?T>::(cloned|copied)$", sym[1]) and len(sym[2]) == 1:
                sym = sym[2][0]
            elif sym[0] == "field" and sym[2] == "0" and sym[1][0] == "downcast" and sym[1][2] == "Some" and origin(sym[1][1])[0] == "call" and \
                    re.search(r"core::slice::<impl \[T\]>::first$", origin(sym[1][1])[1] or ""):
                # the payload of `xs.first()` is xs[0]
                return ("index", origin(origin(sym[1][1])[2][0]), ("const", 0, "usize"))
            else:
                return sym

    # ---- (a) both modes reach run_buf; cmd_mode only guards the print of the last value ------------------------------------
    # main with the accessors of the command-line module read in place (everything of cliargs but the constructor): what main
    # tests and hands on is then expressed over the fields of the value CliArgs::new() returned.  The fields are told
    # apart by their types: the command text (Option<String>), the argument vector (Vec<String>), the -s flag (bool).
    adt = F.adts.get("cliargs::CliArgs") or {}
    by_ty = {}
    for fd in ((adt.get("variants") or [{}])[0].get("fields") or []):
        by_ty.setdefault(fd["ty"], []).append(fd["name"])
    f_cmd = (by_ty.get("std::option::Option<std::string::String>") or [None])[0]
    f_argv = (by_ty.get("std::vec::Vec<std::string::String>") or [None])[0]
    if not R.anchor("CliArgs has one Option<String> (command) and one Vec<String> (arguments) field", f_cmd and f_argv and
                    len(by_ty.get("std::option::Option<std::string::String>")) == 1 and len(by_ty.get("std::vec::Vec<std::string::String>")) == 1):
        return
    mn_i, _ = M.inline_calls(F, mn, lambda c: c.startswith("cliargs::") and not c.endswith("CliArgs::new") and len(F.fns[c]["mir"]["blocks"]) <= 120, depth=3)
    Bm = M.Body(mn_i)

    def agg_defs(l):
        """[(block, variant name, operands)] when every definition of the local builds an enum value, else None"""
        out_ = []
        for (bi_, si_, node_) in Bm.defs().get(l, []):
            rv_ = node_.get("rv") if si_ != "term" else None
            if not (rv_ and rv_["k"] == "agg" and str(rv_.get("ak", "")).startswith("adt:")):
                return None
            out_.append((bi_, H.last(rv_["ak"]), rv_.get("ops") or []))
        return out_

    def origin2(sym, d=0):
        """origin, also through the payload of an enum value that main matches on and exactly one place builds
        (`RunMode::Script(path)` made by an accessor read in place)"""
        sym = origin(sym)
        if d < 4 and sym[0] == "field" and sym[1][0] == "downcast" and origin(sym[1][1])[0] in ("var", "tmp"):
            o_ = origin(sym[1][1])
            ds = agg_defs(o_[2] if o_[0] == "var" else o_[1])
            hit = [x for x in (ds or []) if x[1] == sym[1][2]]
            if len(hit) == 1 and str(sym[2]).isdigit() and int(sym[2]) < len(hit[0][2]):
                return origin2(Bm.sym_op(hit[0][2][int(sym[2])], through_vars=True), d + 1)
        return sym

    def is_field(sym, fld):
        o = origin2(sym)
        return o[0] == "field" and o[2] == fld and origin(o[1])[0] == "call" and (origin(o[1])[1] or "").endswith("CliArgs::new")

    def context(bi, d=0, seen=None):
        """the blocks whose dominating conditions all held when block bi is reached: bi itself and, when bi is reached only
        with an enum local holding one variant that exactly one place builds, that place (and so on)"""
        seen = seen if seen is not None else set()
        if bi in seen or d > 4:
            return []
        seen.add(bi)
        out_ = [bi]
        for sy, vals, dty in M.dominating_conditions(Bm, bi):
            if sy[0] != "discr" or origin(sy[1])[0] not in ("var", "tmp"):
                continue
            o_ = origin(sy[1])
            l_ = o_[2] if o_[0] == "var" else o_[1]
            ds = agg_defs(l_)
            ty_ = (Bm.local_ty(l_) or "").replace("'_ ", "")
            vs_ = dict((n_, dv) for n_, dv in (F.enum_variants(ty_) or []))
            if not ds or not vs_:
                continue
            allowed = [n_ for n_, dv in vs_.items() if (dv in vals if vals and vals[0] != "not" else dv not in vals[1])]
            hit = [x for x in ds if x[1] in allowed]
            if len(hit) == 1:
                out_ += context(hit[0][0], d + 1, seen)
        return out_

    def conditions(bi):
        cmd, argv_len = None, None        # True: Some / non-empty, False: None / empty
        for cb in context(bi):
            for sy, vals, dty in M.dominating_conditions(Bm, cb):
                if sy[0] == "discr" and is_field(sy[1], f_cmd):
                    some = vals == (1,) or vals == ("not", (0,))
                    none = vals == (0,) or vals == ("not", (1,))
                    cmd = True if some else (False if none else cmd)
            cx = P.Ctx(Bm, F)
            facts, _ = P.edge_facts(Bm, cx, cb)
            for l, rel in P._Facts(facts, cx):
                atoms = list(l.c.items())
                if len(atoms) == 1 and re.search(r"CliArgs::new\(\)\.%s\)?\)*$" % re.escape(f_argv), atoms[0][0]):
                    coef, k = atoms[0][1], l.k
                    if rel == "==" and k == 0:
                        argv_len = False
                    elif rel == ">=" and coef == 1 and k <= -1:
                        argv_len = True
                    elif rel == "!=" and k == 0:
                        argv_len = True
        return cmd, argv_len
    sites = {}
    for bi, b in enumerate(Bm.blocks):
        t = b["term"]
        if t["k"] == "call" and not b.get("cleanup") and t.get("callee") in ("run_buf", "run_prompt", "run_file"):
            sites.setdefault(t["callee"], []).append(bi)
    disp_ok = all(len(sites.get(k, [])) == 1 for k in ("run_buf", "run_prompt", "run_file"))
    det = {k: len(v) for k, v in sites.items()}
    if disp_ok:
        args_of = lambda bi: [Bm.sym_op(a, through_vars=True) for a in Bm.blocks[bi]["term"]["args"]]
        a_b, a_p, a_f = args_of(sites["run_buf"][0]), args_of(sites["run_prompt"][0]), args_of(sites["run_file"][0])
        c_b, c_p, c_f = conditions(sites["run_buf"][0]), conditions(sites["run_prompt"][0]), conditions(sites["run_file"][0])

        def cmd_payload(sym):
            o = origin2(sym)
            return o[0] == "field" and o[1][0] == "downcast" and o[1][2] == "Some" and is_field(o[1][1], f_cmd)

        def argv0(sym):
            o = origin2(sym)
            return o[0] == "index" and is_field(o[1], f_argv) and o[2] == ("const", 0, "usize")
        ok_buf = c_b[0] is True and len(a_b) == 4 and cmd_payload(a_b[0]) and is_field(a_b[1], f_argv) and a_b[2] == ("const", True, "bool")
        ok_prompt = c_p == (False, False) and len(a_p) == 1 and is_field(a_p[0], f_argv)
        ok_file = c_f == (False, True) and len(a_f) == 3 and is_field(a_f[1], f_argv) and argv0(a_f[0])
        show_c = lambda c_: "command %s, arguments %s" % ({True: "given", False: "absent", None: "?"}[c_[0]], {True: "present", False: "none", None: "?"}[c_[1]])
        R.ob("mode-dispatch", "main: -c → run_buf(cmd, args, true, skip_pcap)", ok_buf,
             "reached with %s; called with (%s)" % (show_c(c_b), ", ".join(M.show(origin2(x))[:40] for x in a_b)), F.loc(mn))
        R.ob("mode-dispatch", "main: no arguments → run_prompt, else run_file(&args[0].clone(), args, skip_pcap)", ok_prompt and ok_file,
             "run_prompt reached with %s; run_file(%s) reached with %s" % (show_c(c_p), ", ".join(M.show(origin2(x))[:40] for x in a_f), show_c(c_f)), F.loc(mn))
    else:
        R.ob("mode-dispatch", "main calls run_buf, run_prompt and run_file once each", False, str(det), F.loc(mn))
    Bf = M.Body(rfile)
    rbc = sorted(M.call_blocks(Bf, lambda t: t.get("callee") == "run_buf"))
    ok = len(rbc) == 1
    det = "%d calls of run_buf" % len(rbc)
    if ok:
        a = [Bf.sym_op(x, through_vars=True) for x in Bf.blocks[rbc[0]]["term"]["args"]]
        src = origin(a[0])
        # the text handed over is the Ok payload of read_to_string(path): unwrap(..) or the `.0` of the Ok variant
        while src[0] in ("field", "downcast") or (src[0] == "call" and (src[1] or "").endswith(("::unwrap", "::expect")) and src[2]):
            src = origin(src[1] if src[0] != "call" else src[2][0])
        ok = src[0] == "call" and src[1] == "std::fs::read_to_string" and origin(src[2][0])[0] == "arg" and origin(src[2][0])[2] == 1 and \
            origin(a[1])[0] == "arg" and origin(a[1])[2] == 2 and a[2] == ("const", False, "bool") and origin(a[3])[0] == "arg" and origin(a[3])[2] == 3
        det = "run_buf(%s)" % ", ".join(M.show(x)[:50] for x in a)
    R.ob("mode-dispatch", "run_file → run_buf(buf, args, false, skip_pcap) with the file's text unmodified", ok, det, F.loc(rfile))
    # cmd_mode (run_buf's third parameter) decides one branch only: the print of the last value, which also needs
    # `not filter mode` and `not null`
    B = M.Body(rb)
    cm_name = B.local_name(3)
    sw = 0
    for bi, b in enumerate(B.blocks):
        t = b["term"]
        if t["k"] == "switch" and not b.get("cleanup"):
            s_ = B.sym_op(t["d"], through_vars=True)
            if any(x[0] == "arg" and x[2] == 3 for x in M.subterms(s_)):
                sw += 1
    R.ob("cmd-mode-noninterference", "MIR: exactly one branch depends on cmd_mode", sw == 1, "%d switches" % sw, F.loc(rb))
    Bi = M.Body(M.inline_calls(F, rb, lambda c: F.fns[c]["file"] == rb["file"] and c not in ("parse_program", "init_builtin_vars", "run_filters") and
                               len(F.fns[c]["mir"]["blocks"]) <= 150, depth=2)[0])
    under_cmd = [bi for bi, b in enumerate(Bi.blocks) if not b.get("cleanup") and b["term"]["k"] == "call" and Bi.bool_conditions(bi).get(cm_name) is True] \
        if hasattr(Bi, "bool_conditions") else \
        [bi for bi, b in enumerate(Bi.blocks) if not b.get("cleanup") and b["term"]["k"] == "call" and M.bool_conditions(Bi, bi).get(cm_name) is True]
    callees = sorted({M.short_callee(Bi.blocks[bi]["term"].get("callee") or Bi.blocks[bi]["term"].get("decl") or "?") for bi in under_cmd})
    ALLOWED = re.compile(r"^(VM::last_popped|as_ref|deref|write_fmt|clone|drop|.*::as_ref|.*::deref|io::stdout|Write::write_fmt|.*::write_fmt|Arguments::new.*|Argument::new_display|.*::clone|.*::drop|mem::drop|fmt::.*|rt::.*)$")
    extra = [c for c in callees if not ALLOWED.match(c)]
    lp = [bi for bi in under_cmd if (Bi.blocks[bi]["term"].get("callee") or "").endswith("VM::last_popped")]
    def truths(bi):
        out_ = {}
        for sy, vals, dty in M.implied_conditions(Bi, bi, depth=3):
            if dty != "bool":
                continue
            v_ = True if (vals == (1,) or vals == ("not", (0,))) else (False if (vals == (0,) or vals == ("not", (1,))) else None)
            s_ = sy
            while s_[0] == "un" and s_[1] == "Not" and v_ is not None:
                s_, v_ = s_[2], not v_
            if v_ is not None:
                out_[M.show(s_)] = v_
        return out_

    def no_filters(bi):
        # "not filter mode": the program has no filter statement and no end filter, whatever the flag is called and however
        # the test is spelled
        tr = truths(bi)
        none_per_packet = any(v is True and re.search(r"is_empty\(", k) and "filters" in k for k, v in tr.items())
        no_end = any(re.search(r"is_none\(", k) and "filter_end" in k and v is True for k, v in tr.items()) or \
            any(re.search(r"is_some\(", k) and "filter_end" in k and v is False for k, v in tr.items())
        return none_per_packet and no_end
    fm_false = bool(lp) and all(no_filters(bi) for bi in lp)
    # ... and only after the program ran to its end: after a runtime error there is no value of a final expression statement
    after_ok = bool(lp) and all(any("VM::run(" in M.show(sy) and dty != "bool" and (vals in ((0,), ("not", (1,)))) for sy, vals, dty in M.implied_conditions(Bi, bi))
                                or any("is_err(" in k and "VM::run(" in k and v is False for k, v in M.bool_conditions(Bi, bi).items())
                                or any("is_ok(" in k and "VM::run(" in k and v is True for k, v in M.bool_conditions(Bi, bi).items()) for bi in lp)
    R.ob("last-value-after-success", "-c prints the last value only when VM::run returned Ok (a failed run leaves an operand, not a result, in that slot)", after_ok,
         "conditions dominating the read of the last value: %s" % ([sorted(M.bool_conditions(Bi, bi).items()) for bi in lp][:1]), F.loc(rb))
    R.ob("cmd-mode-noninterference", "cmd_mode is read exactly once, in the guard of the last-value print", bool(lp) and fm_false,
         "last_popped under cmd_mode = true and filter mode = false: %s" % fm_false, F.loc(rb))
    # the print itself is skipped for null (HIR of run_buf with the print helper inlined)
    rbi = H.body_inl(F, rb, keep=("last_popped", "run_filters", "init_builtin_vars", "parse_program"))
    par = {}
    stack = [(rbi, None)]
    while stack:
        n, pa = stack.pop()
        if isinstance(n, dict):
            if "k" in n:
                par[id(n)] = pa
            for v in n.values():
                if isinstance(v, (dict, list)):
                    stack.append((v, n if "k" in n else pa))
        elif isinstance(n, list):
            for v in n:
                stack.append((v, pa))
    outs = [c for c in H.walk(rbi) if c.get("k") == "mcall" and c["m"] == "write_fmt" and "stdout" in H.render(c["recv"])]
    null_ok = bool(outs)
    for c in outs:
        cur, guarded = c, False
        while cur is not None and not guarded:
            up = par.get(id(cur))
            if up is None:
                break
            if up.get("k") == "if" and "Object::Null" in H.render(up["c"]):
                neg = H.render(H.strip(up["c"])).startswith("!")
                guarded = (neg and any(x is c for x in H.walk(up["t"]))) or (not neg and up.get("e") is not None and any(x is c for x in H.walk(up["e"])))
            if up.get("k") == "match" and not H.is_try(up):
                null_arms = [a for a in up["arms"] if {H.last(v) for v in H.pat_variants(a["pat"])} == {"Null"}]
                if null_arms and not any(x is c for a in null_arms for x in H.walk(a["body"])) and not any(x.get("k") in ("call", "mcall") for a in null_arms for x in H.walk(a["body"])):
                    guarded = True
            cur = up
        null_ok = null_ok and guarded
    R.ob("cmd-mode-noninterference", "the guarded block only prints the last popped value when it is not null", null_ok and not extra,
         "calls under cmd_mode: %s%s" % (callees, "; unexpected: %s" % extra if extra else ""), F.loc(rb))
    # ---- (c) argv provenance -----------------------------------------------------------------------------------------------------
    cn = F.fn("cliargs::CliArgs::new")
    if R.anchor("CliArgs::new", cn):
        # (a `build_argv(script, rest)` helper of the module is read in place)
        b = H.inline_helpers(F, H.body_of(cn), max_size=200, skip=lambda c_: (F.fns.get(c_) or {}).get("file") != cn["file"])
        # the vector that becomes the argument-vector field of the returned CliArgs, and what is appended to it, in order
        st = [x for x in H.walk(b) if x.get("k") == "struct" and H.last(x["res"].get("path") or "") in ("CliArgs", "Self")]
        vid = None
        if st:
            for fd in st[-1]["fields"]:
                if fd["name"] == f_argv:
                    vid = H.local_id(H.strip(fd["e"]))
        lets_n = {x["pat"]["id"]: x["init"] for x in H.walk(b) if x.get("k") == "let" and x.get("pat", {}).get("k") == "bind" and x.get("init") is not None}
        for _ in range(4):
            # `let argv = { let mut v = ..; v.push(..); v }`: the vector is the one the block hands out
            e_ = lets_n.get(vid)
            while isinstance(e_, dict) and e_.get("k") == "block" and e_.get("expr") is not None:
                e_ = e_["expr"]
            if isinstance(e_, dict) and H.is_local(H.strip(e_)) and H.local_id(H.strip(e_)) != vid:
                vid = H.local_id(H.strip(e_))
            else:
                break
        # locals bound to the parsed `script` / `args` fields (field access, or a destructuring pattern)
        field_of = {}
        for x in H.walk(b):
            if x.get("k") == "struct" and "pats" not in x and x.get("fields") and all("pat" in fd for fd in x["fields"]):
                for fd in x["fields"]:
                    for y in H.walk(fd["pat"]):
                        if y.get("k") == "bind":
                            field_of[y["id"]] = fd["name"]
            if x.get("k") == "if" and H.strip(x["c"]).get("k") == "let":
                c_ = H.strip(x["c"])
                src = H.render(H.strip(c_["init"]))
                for y in H.walk(c_["pat"]):
                    if y.get("k") == "bind":
                        lid0 = H.local_id(H.strip(c_["init"]))
                        field_of[y["id"]] = field_of.get(lid0) or ("script" if src.endswith(".script") else ("args" if src.endswith(".args") else None))

        def src_field(e):
            e = H.strip(e)
            while e.get("k") == "mcall" and not e.get("args") and e["m"] in ("as_slice", "iter", "into_iter", "cloned", "to_vec", "drain", "as_mut_slice"):
                e = H.strip(e["recv"])
            lid_ = H.local_id(e)
            if lid_ in field_of:
                return field_of[lid_]
            t_ = H.render(e)
            return "script" if t_.endswith(".script") else ("args" if t_.endswith(".args") else None)
        muts = [(x["m"], src_field(x["args"][0]) if x.get("args") else None) for x in E_.eval_order(b) if x.get("k") == "mcall" and H.local_id(H.strip(x["recv"])) == vid and vid is not None
                and x["m"] not in ("len", "is_empty", "capacity", "reserve", "as_slice", "clone", "iter")]
        ok = len(muts) == 2 and muts[0] == ("push", "script") and muts[1][0] in ("extend_from_slice", "extend", "append") and muts[1][1] == "args"
        R.ob("argv-provenance", "CliArgs::new: argv = [script] ++ args, in order", ok, "appended in order: %s" % muts, F.loc(cn))
    # the command-line surface clap is told to parse: per argument, the behaviour-relevant builder calls of the derived
    # parser (help texts and value names are cosmetic).  `--`, dash-prefixed values and where options may appear are
    # decided by these settings: e.g. trailing_var_arg / allow_hyphen_values on `args` make a later `--` part of argv.
    au = F.fn("<cliargs::Args as clap::Args>::augment_args")
    if R.anchor("clap derive of cliargs::Args", au):
        COSMETIC = {"help", "long_help", "value_name", "about", "version", "author", "next_line_help", "display_order", "hide", "next_help_heading", "help_heading"}
        per, cur = {}, None
        seq = []
        for x in H.walk(H.body_of(au)):
            if x.get("k") in ("call", "mcall") and "clap" in str(x.get("callee") or ""):
                nm = H.last(x["callee"])
                lits = [H.strip(a).get("v") for a in x.get("args", []) if H.strip(a).get("k") == "lit"]
                seq.append((nm, lits))
        # the derive emits, per field: arg( <builder chain> Arg::new("<id>") ... ) — group the chain by the id that follows
        chain = []
        for nm, lits in seq:
            if nm == "arg":
                chain = []
                cur = None
                continue
            if nm == "new" and lits and isinstance(lits[0], str) and lits[0] in ("command", "script", "args", "skip_pcap") and cur is None and chain is not None:
                cur = lits[0]
                per[cur] = set(chain)
                continue
            if cur is not None and nm not in COSMETIC and nm != "new":
                per[cur].add(nm + (":" + ",".join(map(str, lits)) if lits else ""))
            elif cur is None and nm not in COSMETIC and nm != "new" and chain is not None:
                chain.append(nm + (":" + ",".join(map(str, lits)) if lits else ""))
        want = {"command": {"action", "value_parser", "long:command", "short:c"},
                "script": {"action", "value_parser"},
                "args": {"action", "value_parser", "num_args"},
                "skip_pcap": {"action", "value_parser", "required", "takes_values", "default_value", "long:skip-pcap", "short:s"}}
        for a_, w in want.items():
            R.ob("cli-surface", "argument `%s`" % a_, per.get(a_) == w, "parser settings %s (reference %s)" % (sorted(per.get(a_) or []), sorted(w)), F.loc(au))
    # (whatever accessor hands the vector to main is read in place by the mode-dispatch rule above; a plain `get_args` is also
    # checked on its own when there is one)
    ga = F.fn("cliargs::CliArgs::get_args")
    if ga is not None:
        from .lib import decide as D_
        t_ = D_.canon_text(H.body_of(ga))
        R.ob("argv-provenance", "get_args returns the vector as built", t_ in tuple(x_ % f_argv for x_ in ("self.%s.as_slice()", "self.%s", "self.%s.as_ref()", "self.%s[RangeFull]")), t_, F.loc(ga))
    ib = F.fn("init_builtin_vars")
    if R.anchor("init_builtin_vars", ib):
        from .lib import decide as D_
        b = H.body_of(ib)
        pid = [p_["id"] for p_ in ib["hir"]["params"] if p_.get("k") == "bind"][1] if len(ib["hir"]["params"]) >= 2 else None
        nb = H.unlet(b)
        upd = [c for c in H.walk(nb) if c.get("k") == "mcall" and c["m"] == "update_builtin_var" and "Argv" in H.render(c["args"][0])]
        ok, det = False, "no update of Argv"
        if len(upd) == 1:
            news = [c for c in H.walk(upd[0]["args"][1]) if c.get("k") == "call" and (c.get("callee") or "").endswith("Array::new")]
            if len(news) == 1:
                e = H.strip(news[0]["args"][0])
                BAD = ("rev", "skip", "take", "filter", "step_by", "skip_while", "take_while", "filter_map", "chain", "zip", "dedup", "sort")
                if e.get("k") == "mcall" and e["m"] == "collect":
                    chain = []
                    cur = e
                    while cur.get("k") == "mcall":
                        chain.append(cur["m"])
                        cur = H.strip(cur["recv"])
                    maps = [c for c in H.walk(e) if c.get("k") == "mcall" and c["m"] == "map"]
                    each = D_.canon_text(H.strip(maps[0]["args"][0])["body"]) if maps and H.strip(maps[0]["args"][0]).get("k") == "closure" else "?"
                    ok = H.local_id(cur) == pid and not set(chain) & set(BAD) and re.fullmatch(r"Rc::new\(Object::Str\((\w+)(\.to_string\(\))?\)\)", each) is not None
                    det = "args.%s with each element as %s" % (".".join(reversed(chain)), each)
                elif H.local_id(e) is not None:
                    vid = H.local_id(e)
                    pushes = [c for c in H.walk(nb) if c.get("k") == "mcall" and c["m"] in ("push", "extend", "insert", "push_front") and H.local_id(H.strip(c["recv"])) == vid]
                    loops = [x for x in H.walk(nb) if x.get("k") == "match" and x.get("src", "").startswith("ForLoop") and x["scrut"].get("k") == "call" and
                             H.last(x["scrut"].get("callee") or "") == "into_iter" and any(c is y for c in pushes for y in H.walk(x))]
                    if len(pushes) == 1 and pushes[0]["m"] == "push" and len(loops) == 1:
                        it = loops[0]["scrut"]["args"][0]
                        chain = [c["m"] for c in H.walk(it) if c.get("k") == "mcall"]
                        base = H.strip(it)
                        while base.get("k") == "mcall":
                            base = H.strip(base["recv"])
                        each = D_.canon_text(pushes[0]["args"][0])
                        ok = H.local_id(base) == pid and not set(chain) & set(BAD) and re.fullmatch(r"Rc::new\(Object::Str\((\w+)(\.to_string\(\))?\)\)", each) is not None
                        det = "for each of args%s: push %s" % ("." + ".".join(chain) if chain else "", each)
        R.ob("argv-provenance", "init_builtin_vars maps argv element-wise into the Argv variable", ok, det, F.loc(ib))
    Brb = M.Body(rb)
    ibc = sorted(M.call_blocks(Brb, lambda t: t.get("callee") == "init_builtin_vars"))
    ok = len(ibc) == 1 and len(Brb.blocks[ibc[0]]["term"]["args"]) == 2
    if ok:
        o = origin(Brb.sym_op(Brb.blocks[ibc[0]]["term"]["args"][1], through_vars=True))
        ok = o[0] == "arg" and o[2] == 2
    R.ob("argv-provenance", "run_buf passes its args to init_builtin_vars", ok, "", F.loc(rb))
    # ---- (d) shebang: '#' starts a comment at any position ----------------------------------------------------------------------------
    sc = F.fn("scanner::Scanner::skip_comments")
    nt = F.fn("scanner::Scanner::next_token")
    if R.anchor("Scanner::skip_comments", sc) and R.anchor("Scanner::next_token", nt):
        t = H.render(H.body_of(sc))
        ok = "if ((self.ch == '#') || ((self.ch == '/') && (self.peek_char() == '/')))" in t and "(self.ch == '\n')" in t
        R.ob("shebang-comment", "'#' starts a comment up to end of line wherever it appears", ok, t[:200], F.loc(sc))
        order = [c["m"] for c in H.walk(H.body_of(nt)) if c.get("k") == "mcall" and c["m"] in ("skip_whitespace", "skip_comments")]
        R.ob("shebang-comment", "next_token skips whitespace and comments before every token", order[:2] == ["skip_whitespace", "skip_comments"], str(order), F.loc(nt))
