"""C08 — execution never crashes: absence of panic paths in everything reachable
at run time (E1 panic-site audit)."""
import re

from .lib import audit_run
from .lib import hir as H
from .lib import mir as M

EXPL = ("Panic-site audit (E1) over the call graph from the run-time roots (VM::run, filter frames, the 47 builtins "
        "reached through BUILTINFNS, the packet-property code, Display/PartialEq/Hash/serialisation impls, the stream "
        "loop of main.rs): every MIR Assert (bounds, overflow, division) and every call to a callee that panics on some "
        "arguments (indexing, unwrap/expect, RefCell borrows, explicit panics, wrapping_div, sort, ...) is enumerated "
        "and must be discharged by constant reasoning, dominating linear guard facts, the usize type rule, the "
        "RefCell live-range rule, a linked rule instance of another check that holds in the same run, or a reviewed "
        "justification (tables/justified_sites.json). Decides the absence of panic *paths*; Rust-stack exhaustion by "
        "data nesting and allocation failure are outside (stated assumptions).")

ROOTS = ["vm::interpreter::VM::run", "vm::interpreter::VM::push_filter_frame", "vm::interpreter::VM::pop_filter_frame",
         "vm::interpreter::VM::set_curr_pkt", "vm::interpreter::VM::update_builtin_var", "vm::interpreter::VM::last_popped",
         "vm::interpreter::VM::new", "vm::interpreter::VM::new_with_global_store",
         "run_buf", "run_filters", "init_builtin_vars"]

FRONT_END = ("src/scanner/", "src/parser/", "src/compiler/", "src/code/", "src/repl/", "src/cliargs/")


def runtime_fn(p, f):
    file = f["file"]
    if any(x in file for x in FRONT_END):
        # the decoder side of src/code (Opcode::from, lookups used by Display) is run-time code
        return file.endswith("code/opcode.rs") or file.endswith("code/prop.rs")
    if "lazy_static" in f.get("mac", "") and "parser" in p:
        return False
    return True


def builtin_roots(F, R):
    from .lib.tables import builtin_table
    t = builtin_table(F, R) or []
    return sorted({fn for _, fn in t if fn in F.fns})


def run(F, R, tier):
    R.explanation = EXPL
    R.assumptions += ["A1: usize additions/multiplications on interpreter bookkeeping do not overflow before memory is exhausted",
                      "A2: Rust-stack depth (recursion of Display/eq/hash/serialisation over nested data) is not decided",
                      "A3: std/byteorder/rand behave as documented; tables/std_callees.json classifies every external callee",
                      "allocation-size panics are excluded by the property"]
    br = builtin_roots(F, R)
    R.floor("builtin functions (roots)", len(br), 47)
    A, fns, keys = audit_run.run_audit(F, R, ROOTS + br, runtime_fn, "run time", link_ops=True)
    R.floor("run-time functions audited", len(fns), 280)
    # stale justifications (only those that name a function of this audit)
    default_cfg = getattr(F, "config", "default") == "default"  # table bookkeeping is held to the default configuration
    for gi, g in enumerate(A.groups if default_cfg else []):
        if g.get("fn") in fns:
            n = len(A.group_hits.get(gi, []))
            # more sites than were reviewed = a new site rides on an old justification; fewer = code went away or moved
            # (a moved site shows up as an open site of its new function)
            R.ob("justified-group-count", g["name"], n <= g["count"] or bool(g.get("open_ended")),
                 "group justification matches %d sites, reviewed count is %d%s" % (n, g["count"], " (shape justified by an invariant: open-ended)" if g.get("open_ended") else ""), nontrivial=False)
            if n > g["count"]:
                R.note("justification group '%s' now matches %d sites, %d were counted at review time" % (g["name"], n, g["count"]))
            if n < g["count"]:
                R.note("justification group '%s' now matches %d of the %d reviewed sites" % (g["name"], n, g["count"]))
    for k in (A.justified if default_cfg else []):
        fn = k.split(" | ")[0]
        if fn in fns and k not in keys:
            R.note("tables/justified_sites.json names a site that no longer exists: %s" % k)

    who_calls(F, R, A)
    recursion_bounds(F, R, A, fns)
    emission_link(F, R)
    # print!/eprint! panic when the descriptor fails ("failed printing to stdout"): every remaining use in run-time code
    from .lib import mir as M
    for p in fns:
        B = A.body(p)
        n = sum(1 for b in B.blocks if not b.get("cleanup") and b["term"]["k"] == "call" and
                (b["term"].get("callee") or "") in ("std::io::_print", "std::io::_eprint"))
        if n:
            R.ob("print-macro-on-failing-stream", p, False,
                 "%d print!/eprint!-family call(s): they panic when stdout/stderr reports an error" % n, F.loc(F.fns[p]))


def emission_link(F, R):
    """Linked rule instances of the emission verifier (C07's engine) that the stack-discipline justifications of VM::run
    rest on: no emitted instruction consumes operands its construct did not push, and ReturnValue/Return are emitted in
    function scopes only."""
    from .lib import e5run
    from .lib.vmeffects import Lin, lmin
    res = e5run.analyse(F, R)
    if not res.get("ok"):
        R.ob("emission-link", "the emission verifier could interpret the compiler", False, "unsupported construct: %s" % res.get("unsupported"))
        return
    g = F.fn("compiler::Compiler::compile_statement")
    seen = set()
    for v in res["viol"]:
        rule, key, detail, line, facts = v
        if rule in ("return-guard", "operand-underflow", "function-ends-with-return", "opcode-effect") and (rule, key) not in seen:
            seen.add((rule, key))
            R.ob(rule, key, False, detail, "src/compiler/mod.rs:%s" % line if line else "")
    for ctx in ("main", "filter"):
        r = res["stmt"].get(("Return", ctx))
        oks = [s for t, s in r["ends"] if t == "ok"] if r else None
        R.ob("return-guard", "return in the %s scope is rejected by the compiler" % ("top-level" if ctx == "main" else "filter"), oks == [],
             "%s accepting paths" % (len(oks) if oks is not None else "?"), F.loc(g) if g else "")
    n = 0
    bad = []
    for table, floors in ((res["stmt"], None), (res["expr"], e5run.CLASS_FLOOR)):
        for (var, ctx), r in table.items():
            for t, s in r["ends"]:
                if t != "ok":
                    continue
                n += 1
                if floors is None:
                    fl = Lin(0)
                else:
                    cls = e5run.expected_class(var, e5run.access_of(s, r["pname"], var), e5run.left_of(s, r["pname"], var) if var == "Assign" else None)
                    if cls is None:
                        continue
                    fl = Lin(floors[cls])
                if not (lmin(s.minh, fl) == fl):
                    bad.append("%s[%s] reaches %s" % (var, ctx, s.minh))
    R.ob("emission-link", "no emitted instruction consumes operands below what its construct was given (all statement and expression arms)", not bad and n > 500,
         "%d paths; violations: %s" % (n, bad[:3]))


def recursion_bounds(F, R, A, fns):
    """'unbounded recursion' inside the interpreter itself: every directly self-recursive run-time function must carry
    a fuel parameter (each recursive call passes `fuel - 1`), and every outside caller must pass a fuel value that a
    dominating test bounds by a constant *in the unsigned type it is passed in* — a test made on a signed copy followed
    by `as usize` lets a negative value through as 2^64-1, and the recursion then runs until the Rust stack is gone."""
    from .lib import mir as M
    from .lib import panics as P
    n_rec = 0
    for p in sorted(fns):
        if p not in A.cg.edges.get(p, ()):
            continue
        g = F.fns[p]
        if not g.get("mir"):
            continue
        B = M.Body(g)
        rec_calls = [(bi, b["term"]) for bi, b in enumerate(B.blocks) if not b.get("cleanup") and b["term"]["k"] == "call" and b["term"].get("callee") == p]
        if not rec_calls:
            continue
        n_rec += 1
        fuel = None
        for i in range(1, B.arg_count + 1):
            nm = B.local_name(i)
            ty = (B.local_ty(i) or "").strip()
            if ty not in ("usize", "u8", "u16", "u32", "u64"):
                continue
            ok_all = True
            for bi, t in rec_calls:
                if i - 1 >= len(t["args"]):
                    ok_all = False
                    break
                a = B.sym_op(t["args"][i - 1], through_vars="pure")
                sh = M.show(a)
                if not (sh.replace(" ", "") in ("(%sSubWithOverflow1).0" % nm, "(%sSub1)" % nm, "(%sSubUnchecked1)" % nm)):
                    ok_all = False
                    break
            if ok_all:
                fuel = (i, nm)
                break
        if fuel is None:
            R.ob("recursion-bounded", "%s: recursion consumes a fuel parameter" % H.last(p), False,
                 "no unsigned parameter is decremented by every recursive call: the depth of the recursion is bounded by data only (assumption A2)", F.loc(g))
            continue
        R.ob("recursion-bounded", "%s: every recursive call passes %s - 1" % (H.last(p), fuel[1]), True, "%d recursive calls" % len(rec_calls), F.loc(g))
        sites, addr = A.callers_of(p)
        for (q, bi) in sorted(sites):
            if q == p:
                continue
            Bq = A.body(q)
            t = Bq.blocks[bi]["term"]
            a = Bq.sym_op(t["args"][fuel[0] - 1], through_vars="pure")
            cx = P.Ctx(Bq, F)
            facts, _ = P.edge_facts(Bq, cx, bi)
            la = cx.lin(a)
            # signed → unsigned casts inside the argument (after whatever was tested)
            signed_cast = [M.show(x)[:40] for x in M.subterms(a) if x[0] == "cast" and x[1] in ("usize", "u64", "u32") and
                           (cx.ty_of(x[2]) or "").strip() in ("i64", "i32", "isize", "i16", "i8")]
            bound = None
            for l, rel in facts:
                if rel != ">=":
                    continue
                # K - arg >= 0  ⇒  l + arg is a constant
                ssum = l.add(la)
                if ssum.is_const() and not la.is_const():
                    bound = ssum.k if bound is None else min(bound, ssum.k)
            if la.is_const():
                bound = la.k
            ok = bound is not None and bound <= 4096 and not signed_cast
            R.ob("recursion-bounded", "%s → %s: the fuel passed is bounded" % (H.last(q), H.last(p)), ok,
                 "fuel argument %s; dominating bound: %s%s" % (M.show(a)[:60], bound, ("; converted from a signed value after the test: %s" % signed_cast) if signed_cast else ""),
                 F.loc(F.fns[q], t.get("line")))
    R.count("self-recursive run-time functions", n_rec)


def who_calls(F, R, A):
    """Caller-side conditions that several justified sites rely on."""
    from .lib import emit as E
    VM = "vm::interpreter::VM::"
    # push_frame: only call_func / push_filter_frame, each testing frames_index against MAX_FRAMES first
    callers, addr = A.callers_of(VM + "push_frame")
    cs = sorted({c for c, _ in callers})
    R.ob("push-frame-callers", "callers of push_frame", cs == [VM + "call_func", VM + "push_filter_frame"] and not addr,
         "callers: %s" % cs)
    from .lib import panics as P
    maxf, stk = F.const("vm::interpreter::MAX_FRAMES"), F.const("vm::interpreter::STACK_SIZE")
    for c in cs:
        g = F.fn(c)
        B = A.body(c)
        calls = sorted(M.call_blocks(B, lambda t: t.get("callee") == VM + "push_frame"))
        ok1 = ok2 = bool(calls)
        det1, det2 = [], []
        for bb in calls:
            cx = P.Ctx(B, F)
            facts, _ = P.edge_facts(B, cx, bb)
            facts = P._Facts(facts + A.param_facts(c), cx)
            # (1) frames_index < MAX_FRAMES holds on every path to the call (a test in this function, or in a checking
            # helper whose Ok result is propagated with `?`)
            fi = cx.lin(("field", ("deref", ("arg", "self", 1)), "frames_index"))
            r1 = P.prove_ge0(P.Lin(k=(maxf or 0) - 1).add(fi, -1), facts, cx.nonneg) if isinstance(maxf, int) else None
            ok1 = ok1 and bool(r1)
            det1.append(r1 or "no dominating test bounds self.frames_index below MAX_FRAMES")
            # (2) a dominating fact  STACK_SIZE - bp - num_locals >= 0
            hit = None
            for l, rel in facts:
                nl = [a for a in l.c if "num_locals" in a]
                if rel == ">=" and l.k == stk and len(nl) == 1 and l.c[nl[0]] == -1 and len(l.c) >= 2:
                    hit = "%s >= 0" % (l,)
            ok2 = ok2 and hit is not None
            det2.append(hit or "no dominating test bounds base + num_locals by STACK_SIZE")
        R.ob("push-frame-callers", "%s tests frames_index >= MAX_FRAMES before push_frame" % H.last(c), ok1, "; ".join(det1)[:200], F.loc(g))
        # the same guard bounds the callee's locals
        R.ob("frame-fits-stack", "%s tests bp + num_locals > STACK_SIZE" % H.last(c), ok2, "; ".join(det2)[:200], F.loc(g))
    # Array::set: only exec_array_index, after both index guards
    callers, addr = A.callers_of("object::array::Array::set")
    cs = sorted({c for c, _ in callers})
    R.ob("array-set-callers", "callers of Array::set", cs == [VM + "exec_array_index"] and not addr, "callers: %s" % cs)
    g = F.fn(VM + "exec_array_index")
    if R.anchor(VM + "exec_array_index", g):
        B = A.body(VM + "exec_array_index")
        calls = sorted(M.call_blocks(B, lambda t: t.get("callee") in ("object::array::Array::set", "object::array::Array::get")))
        ok, dets = bool(calls), []
        for bb in calls:
            t = B.blocks[bb]["term"]
            cx = P.Ctx(B, F)
            facts, _ = P.edge_facts(B, cx, bb)
            facts = P._Facts(facts + A.param_facts(VM + "exec_array_index"), cx)
            arr_s = B.sym_op(t["args"][0], through_vars="pure")
            idx_s = B.sym_op(t["args"][1], through_vars="pure")
            ln = cx.lin(("call", "object::array::Array::len", (arr_s,), ()))
            # the guard may be written against any spelling of the same array reference: try the atoms the facts mention
            len_atoms = {a for l, _ in facts for a in l.c if "Array::len(" in a}
            upper = any(P.prove_ge0(P.Lin({a: 1}).add(cx.lin(idx_s), -1).add(P.Lin(k=1), -1), facts, cx.nonneg) for a in len_atoms)
            signed = [x for x in M.subterms(idx_s) if x[0] == "cast" and x[1] in P.UNSIGNED and (cx.ty_of(x[2]) in P.SIGNED)]
            lower = all(P.prove_ge0(cx.lin(x[2]), facts, cx.nonneg) for x in signed)
            ok = ok and upper and lower
            dets.append("%s: index < len: %s, index >= 0: %s" % (H.last(t["callee"]), upper, lower))
        R.ob("array-set-callers", "exec_array_index guards 0 <= idx < arr.len() before set/get", ok and len(calls) >= 2, "; ".join(dets), F.loc(g))
    # constants: STACK_SIZE / MAX_FRAMES / sizes used by the justifications
    for c, lo in (("vm::interpreter::STACK_SIZE", 1), ("vm::interpreter::MAX_FRAMES", 1)):
        v = F.const(c)
        R.ob("vm-constants", c, isinstance(v, int) and v >= lo, "value %s" % v, nontrivial=False)
