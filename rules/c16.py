"""C16 — header accessors decode the RFC-defined fields and layers."""
import re

from .lib import hir as H
from .lib import mir as M
from .lib import codec as C
from .lib import layers as L
from .lib.tables import lazy_init

EXPL = ("Codec bit-provenance (E4) composed with the getter chain (PacketPropType arm of exec_prop_L → get_* method → "
        "header field → widening cast), compared bit for bit with a frozen reference layout (tables/rfc_layouts.json: "
        "pcap-savefile, 802.3/802.1Q, RFC 791/8200/9293/768) — complete for fixed-position fields because a getter is a "
        "pure bit selection. Table agreement (E2): EtherType / protocol / next-header dispatch constants of get_inner, "
        "selector guards of the named layer properties, property-name tables (Display, From<u8>, PACKET_PROP_MAP), "
        "payload offsets, length prologues of every decoder and the error-object mapping for truncated layers.")


def lsb_first(spec_bits):
    return [("in", b, j) for (b, j) in reversed(spec_bits)]


def _const_variants(F, e, depth=0):
    """the variant names of a const array of enum variants, reached through `&`, a slice of it, or a function returning it"""
    e = H.strip(e)
    if depth > 4:
        return None
    if e.get("k") == "ref":
        return _const_variants(F, e["e"], depth + 1)
    if e.get("k") == "mcall" and e["m"] in ("iter", "as_slice", "into_iter", "copied", "cloned") and not e.get("args"):
        return _const_variants(F, e["recv"], depth + 1)
    if e.get("k") == "path" and e["res"].get("r") in ("const", "static"):
        c = F.consts.get(e["res"]["path"])
        if c is None or not c.get("hir"):
            return None
        return _const_variants(F, H.body_of(c) if "hir" in c else c, depth + 1)
    if e.get("k") == "array":
        out = [H.ctor_of(H.strip(x)) for x in e["es"]]
        return [H.last(v) for v in out] if all(out) else None
    if e.get("k") == "call" and e.get("callee") in F.fns and not e.get("args"):
        b = H.body_of(F.fn(e["callee"]))
        if b.get("k") == "block" and not b.get("stmts") and b.get("expr") is not None:
            b = b["expr"]
        return _const_variants(F, b, depth + 1)
    return None


def _byte_table(F, fu):
    """{byte: variant name} over all 256 byte values as From<u8> computes it: a match on the byte with literal arms, or a
    lookup of the byte in a const array of variants with a default for what is past its end; None when it is neither"""
    arg = fu["hir"]["params"][0].get("id") if fu["hir"]["params"] else None
    ms = [m for m in H.walk(H.body_of(fu)) if m.get("k") == "match" and not H.is_try(m)]
    inner = {id(x) for m in ms for a in m["arms"] for x in H.walk(a["body"]) if x.get("k") == "match"}
    ms = [m for m in ms if id(m) not in inner]
    if len(ms) != 1:
        return None
    m = ms[0]
    sc = H.strip(m["scrut"])

    def is_arg(e):
        e = H.strip(e)
        while e.get("k") == "cast" or (e.get("k") in ("call", "mcall") and H.last(e.get("callee") or "") in ("from", "into")
                                       and len(([e["recv"]] if e.get("k") == "mcall" else []) + e.get("args", [])) == 1):
            e = H.strip(e["e"] if e.get("k") == "cast" else (([e["recv"]] if e.get("k") == "mcall" else []) + e.get("args", []))[0])
        return H.is_local(e) and H.local_id(e) == arg
    if is_arg(sc) and sc.get("k") == "path":
        table, default = {}, None
        for a in m["arms"]:
            v = H.ctor_of(H.strip(a["body"]))
            if v is None or a.get("guard") is not None:
                return None
            if a["pat"].get("k") == "plit":
                table.setdefault(a["pat"]["lit"]["v"], H.last(v))
            elif a["pat"].get("k") == "wild":
                default = H.last(v)
            else:
                return None
        return {b: table.get(b, default) for b in range(256)}
    if sc.get("k") == "mcall" and sc["m"] == "get" and len(sc.get("args", [])) == 1 and is_arg(sc["args"][0]):
        arr = _const_variants(F, sc["recv"])
        if arr is None:
            return None
        some, none = None, None
        for a in m["arms"]:
            pt = a["pat"]
            if a.get("guard") is not None:
                return None
            if pt.get("k") == "ts" and H.last(pt["res"].get("path") or "") == "Some" and len(pt.get("pats", [])) == 1 and pt["pats"][0].get("k") == "bind":
                val = a["body"]
                while val.get("k") == "block" and val.get("expr") is not None:
                    # (statements before the value may assert, not decide)
                    if any(x.get("k") in ("ret", "assign", "assignop") for st in val.get("stmts", []) for x in H.walk(st)):
                        return None
                    val = val["expr"]
                val = H.strip(val)
                if val.get("k") == "un" and val.get("op") == "*":
                    val = H.strip(val["e"])
                if val.get("k") == "mcall" and val["m"] == "clone" and not val.get("args"):
                    val = H.strip(val["recv"])
                if H.is_local(val) and H.local_id(val) == pt["pats"][0]["id"]:
                    some = True
            elif H.last((pt.get("res") or {}).get("path") or "") == "None" or pt.get("k") == "wild":
                v = H.ctor_of(H.strip(a["body"]))
                none = H.last(v) if v else None
        if not some or none is None:
            return None
        return {b: (arr[b] if b < len(arr) else none) for b in range(256)}
    return None


def _map_population(F, pm, conv, discr):
    """the variants v for which the initialiser's loop inserts (v.to_string(), v): → (list | None, reason)"""
    b = H.unlet(H.body_of(pm))
    loops = [m for m in H.walk(b) if m.get("k") == "match" and H.strip(m["scrut"]).get("k") in ("call", "mcall")
             and H.last(H.strip(m["scrut"]).get("callee") or "") == "into_iter"]
    if len(loops) != 1:
        return None, "found %d loops" % len(loops)
    sc = H.strip(loops[0]["scrut"])
    it = H.strip((([sc["recv"]] if sc.get("k") == "mcall" else []) + sc.get("args", []))[0])
    # the loop variable and the inserts under it
    var = None
    for x in H.walk(loops[0]):
        if x.get("k") == "match":
            for a in x["arms"]:
                pt = a["pat"]
                if pt.get("k") in ("ts", "struct") and H.last(pt["res"].get("path") or "") == "Some":
                    for q in H.walk(pt):
                        if q.get("k") == "bind":
                            var = q["id"]
    ins = [c for c in H.walk(loops[0]) if c.get("k") == "mcall" and c["m"] == "insert" and len(c.get("args", [])) == 2]
    if var is None or len(ins) != 1:
        return None, "loop of unknown shape"
    byte_loop = False
    if it.get("k") == "struct" and H.last(it["res"].get("path") or "") == "Range":
        fl = {fd["name"]: H.strip(fd["e"]) for fd in it["fields"]}
        st, en = fl.get("start"), fl.get("end")
        end_v = H.ctor_of(H.strip(en["e"])) if en is not None and en.get("k") == "cast" else None
        if not (st is not None and st.get("k") == "lit" and st.get("v") == 0 and end_v and H.last(end_v) in discr):
            return None, "range of unknown bounds"
        if conv is None:
            return None, "bytes are converted by a From<u8> that is not the discriminant table"
        dom = [conv[i] for i in range(discr[H.last(end_v)])]
        byte_loop = True
    else:
        dom = _const_variants(F, it)
        if dom is None:
            return None, "iterates over something that is not a range of codes or a constant table of variants"

    def is_var(e):
        if byte_loop:
            conv_seen = any(x.get("k") in ("call", "mcall") and H.last(x.get("callee") or "") in ("from", "into") and "PacketPropType" in (x.get("ty") or "")
                            for x in H.walk(e))
            e = H.strip(e)
            while e.get("k") in ("call", "mcall") and H.last(e.get("callee") or "") in ("from", "into"):
                e = H.strip((([e["recv"]] if e.get("k") == "mcall" else []) + e.get("args", []))[0])
            return conv_seen and H.is_local(e) and H.local_id(e) == var
        e = H.strip(e)
        if e.get("k") == "un" and e.get("op") == "*":
            e = H.strip(e["e"])
        if e.get("k") == "mcall" and e["m"] == "clone" and not e.get("args"):
            e = H.strip(e["recv"])
        return H.is_local(e) and H.local_id(e) == var
    k, v = ins[0]["args"][0], ins[0]["args"][1]
    while k.get("k") == "ref" or (k.get("k") == "block" and not k.get("stmts") and k.get("expr") is not None):
        k = k["e"] if k.get("k") == "ref" else k["expr"]
    if not (k.get("k") == "mcall" and k["m"] == "to_string" and is_var(k["recv"]) and is_var(v)):
        return None, "the insert is not (v.to_string(), v)"
    return dom, ""



def run(F, R, tier):
    R.explanation = EXPL
    R.assumptions += ["A5: tables/rfc_layouts.json is a correct transcription of the cited layouts",
                      "text forms of addresses (Display/from_str) are not decided (C18 not claimed)"]
    ref = L.rfc()
    names = L.prop_names(F)
    R.floor("PacketPropType display names", len(names), 47)
    n_props = 0
    handled = set()
    for lname, spec in L.LAYERS.items():
        arms = L.prop_arms(F, spec["exec"])
        if not R.anchor(spec["exec"], arms is not None):
            continue
        f = F.fn(spec["exec"])
        dec, err = C.decode_struct(F, spec["decoder"], spec["hdr"] + "$")
        if not R.anchor("decoder of %s" % lname, dec is not None, err or ""):
            continue
        layout = ref["layers"][lname]["props"]
        seen_names = set()
        for variant, info in arms.items():
            if variant == "*":
                continue
            handled.add(variant)
            pname = names.get(variant, "?" + variant)
            if info["kind"] != "field":
                continue
            n_props += 1
            seen_names.add(pname)
            key = "%s.%s" % (lname, pname)
            want = layout.get(pname)
            if want is None:
                R.ob("getter-layout", key, False, "property has no entry in the reference layout of %s" % lname, F.loc(f, info["line"]))
                continue
            fld, conv = L.getter_field(F, info["get"])
            if fld is None:
                R.ob("getter-layout", key, False, "getter %s is not a plain header-field read" % H.last(info["get"] or "?"), F.loc(f, info["line"]))
                continue
            kind, convs = conv
            w = L.parse_spec(want)
            if w[0] == "bytes":
                # address: all bytes of the nested address struct, in order, shown through Display (to_string)
                bits = []
                parts = sorted((k for k in dec if k.startswith(fld + ".") and not k.endswith("__len")),
                               key=lambda k: int(k.rsplit(".", 1)[1]))
                got = []
                for k in parts:
                    b = dec[k]
                    # each component: bytes MSB first
                    for i in range(len(b) // 8 - 1, -1, -1):
                        byte = b[i * 8:(i + 1) * 8]
                        ks = {o[1] for o in byte if isinstance(o, tuple)}
                        got.append(ks.pop() if len(ks) == 1 and all(isinstance(o, tuple) and o[2] == j for j, o in enumerate(byte)) else None)
                ok = got == list(range(w[1], w[2] + 1)) and kind == "Str"
                R.ob("getter-layout", key, ok, "field %s covers input bytes %s (reference %d-%d), returned as %s via %s"
                     % (fld, got, w[1], w[2], kind, convs), F.loc(f, info["line"]))
                continue
            bits = dec.get(fld)
            if bits is None:
                bits = dec.get(re.sub(r"\.0$", "", fld))
            wantbits = lsb_first(w[1])
            if not isinstance(bits, list):
                R.ob("getter-layout", key, False, "header field %s has no decoded bits" % fld, F.loc(f, info["line"]))
                continue
            live = bits[:len(wantbits)]
            rest = bits[len(wantbits):]
            widening = all(c.startswith("as i") or c.startswith("as u") or c in ("clone", "let") for c in convs)
            ok = live == wantbits and all(x == 0 for x in rest) and kind in ("Integer", "Bool") and widening
            R.ob("getter-layout", key, ok,
                 "%s() reads field %s = %s; reference %s = %s" % (H.last(info["get"]), fld, fmt(bits), want, fmt(wantbits)),
                 F.loc(f, info["line"]))
        for pname in layout:
            R.ob("layout-covered", "%s.%s" % (lname, pname), pname in seen_names or (lname == "packet" and pname == "usec"),
                 "reference property is exposed by %s" % H.last(spec["exec"]), nontrivial=False)
    R.count("readable field properties checked against the reference layout", n_props)
    R.floor("readable field properties", n_props, 50)

    # ---- (c) dispatch tables of get_inner ---------------------------------------------------------------
    gi = F.fn(L.PK + "get_inner")
    disp = ref["dispatch"]
    if R.anchor("get_inner", gi):
        n_arms = 0
        tables_seen = set()
        # the enclosing arm of each selector match (per kind of object get_inner is handed)
        encl = {}
        for tm in H.walk(H.body_of(gi)):
            if tm.get("k") == "match" and not H.is_try(tm):
                for ta in tm["arms"]:
                    for x in H.walk(ta["body"]):
                        if x.get("k") == "match" and not H.is_try(x):
                            encl.setdefault(id(x), ta["body"])
        for m in H.walk(H.body_of(gi)):
            if m.get("k") != "match" or H.is_try(m):
                continue
            sc = H.render(m["scrut"])
            table = None
            if sc.endswith(".get_ethertype_raw()"):
                table = disp["ethertype"]
            elif sc.endswith(".get_protocol_raw()"):
                table = disp["ipv4_protocol"]
            elif sc.endswith(".get_next_header_raw()"):
                table = disp["ipv6_next_header"]
            if table is None:
                continue
            holder = sc.split(".")[0]
            got = {}
            default_null = False
            tables_seen_here = set()
            for a in m["arms"]:
                p = a["pat"]
                if p.get("k") == "ppath":
                    val = p["res"].get("val")
                    calls = [c for c in H.walk(a["body"]) if c.get("k") == "mcall" and c["m"].startswith("exec_prop_")]
                    layer = H.last(H.ctor_of(H.strip(calls[0]["args"][1])) or "?") if calls else "?"
                    callee = calls[0]["callee"] if calls else None
                    if not calls:
                        # the arms only choose the layer (`EtherTypes::Vlan => Some(PacketPropType::Vlan)`); one call after the
                        # match parses whatever was chosen
                        pts = {H.last(H.ctor_of(x) or "") for x in H.walk(a["body"]) if "PacketPropType::" in (H.ctor_of(x) or "")}
                        later = [c for c in H.walk(encl.get(id(m), {})) if c.get("k") == "mcall" and c["m"].startswith("exec_prop_") and
                                 H.local_id(H.strip(c["args"][1])) is not None]
                        if len(pts) == 1 and len({c["callee"] for c in later}) == 1:
                            layer, callee = pts.pop(), later[0]["callee"]
                    got[str(val)] = (layer, callee, a.get("line"))
                    if callee:
                        tables_seen.add(H.last(callee))
                elif p.get("k") == "wild":
                    bt = H.render(H.strip(a["body"]))
                    default_null = bt in ("Rc::new(Object::Null)", "Object::Null")
                    if bt in ("v1::None", "None"):
                        # `_ => None`, and the value chosen is then matched: `None => Rc::new(Object::Null)`
                        for x in H.walk(encl.get(id(m), {})):
                            if x.get("k") == "match" and not H.is_try(x) and x is not m:
                                for a2 in x["arms"]:
                                    if {H.last(v) for v in H.pat_variants(a2["pat"])} == {"None"} and H.render(H.strip(a2["body"])) in ("Rc::new(Object::Null)", "Object::Null"):
                                        default_null = True
            for val, layer in table.items():
                n_arms += 1
                g = got.get(val)
                ok = g is not None and g[0] == layer
                det = "selector value %s → %s (reference %s)" % (val, g[0] if g else None, layer)
                if ok:
                    # the callee must have a layer arm for that constant, parsing with that layer's decoder
                    carms = L.prop_arms(F, g[1]) or {}
                    ci = carms.get(layer)
                    want_dec = L.LAYERS[layer.lower()]["decoder"]
                    ok = ci is not None and ci.get("kind") == "layer" and ci.get("from_bytes") == want_dec
                    det += "; %s has a %s arm parsing with %s" % (H.last(g[1]), layer, H.last(ci.get("from_bytes") or "?") if ci else None)
                R.ob("layer-dispatch", "%s: %s=%s" % (holder, sc.split(".")[-1], val), ok, det, F.loc(gi, g[2] if g else None))
            extra = set(got) - set(table)
            R.ob("layer-dispatch", "%s: no other selector value is dispatched; others yield null" % sc, not extra and default_null,
                 "extra: %s; default null: %s" % (sorted(extra), default_null), F.loc(gi))
        R.floor("dispatch arms", n_arms, 8)
        # every layer that carries a selector field has such a table (a dispatch written in another form is reported as
        # unreadable rather than skipped)
        for holder_fn in ("exec_prop_eth", "exec_prop_vlan", "exec_prop_ipv4", "exec_prop_ipv6"):
            R.ob("layer-dispatch", "get_inner has a selector table that dispatches into %s" % holder_fn, holder_fn in tables_seen,
                 "selector tables read for: %s" % sorted(tables_seen), F.loc(gi))

    # ---- (d) named layer properties test the selector field -------------------------------------------------------
    sel_getter = {"eth": "get_ethertype_raw", "vlan": "get_ethertype_raw", "ipv4": "get_protocol_raw", "ipv6": "get_next_header_raw"}
    sel_table = {"eth": disp["ethertype"], "vlan": disp["ethertype"], "ipv4": disp["ipv4_protocol"], "ipv6": disp["ipv6_next_header"]}
    n_sel = 0
    for lname, spec in L.LAYERS.items():
        arms = L.prop_arms(F, spec["exec"]) or {}
        f = F.fn(spec["exec"])
        done = set()
        for variant, info in arms.items():
            if info.get("kind") != "layer" or id(info) in done:
                continue
            done.add(id(info))
            want_dec = L.LAYERS[variant.lower()]["decoder"]
            R.ob("layer-decoder", "%s.%s" % (lname, variant.lower()), info["from_bytes"] == want_dec,
                 "parses with %s at offset %s" % (H.last(info["from_bytes"]), info.get("offset")), F.loc(f, info["line"]))
            if lname == "packet":
                continue  # a pcap record has no per-packet selector (the link type is global)
            n_sel += 1
            s = info.get("selector")
            inv = {v: k for k, v in sel_table[lname].items()}
            ok = s is not None and s[0].endswith("." + sel_getter[lname] + "()") and str(s[2]) == inv.get(variant)
            # the guard must come before the cache lookup and the parse
            order = []
            for x in H.walk(info["body"]):
                if x is info.get("selector_guard"):
                    order.append("selector")
                if x.get("k") == "mcall" and x["m"] == "borrow" and "inner" in H.render(x["recv"]):
                    order.append("cache")
                if x.get("k") == "call" and (x.get("callee") or "").endswith("::from_bytes"):
                    order.append("parse")
            ok = ok and order[:1] == ["selector"]
            R.ob("layer-selector", "%s.%s" % (lname, variant.lower()), ok,
                 "read path tests %s against %s (reference %s) before cache/parse: %s" % (
                     s[0] if s else None, s[2] if s else None, inv.get(variant), order), F.loc(f, info["line"]))
            # the layer is parsed at the recorded payload offset of the outer layer
            R.ob("layer-offset", "%s.%s" % (lname, variant.lower()), info.get("offset") == "%s.offset" % arg_name(f),
                 "offset argument %s" % info.get("offset"), F.loc(f, info["line"]), nontrivial=False)
    R.floor("named layer properties with selector", n_sel, 11)

    # ---- (e) payload getters start at the recorded offset ------------------------------------------------------------
    for lname, spec in L.LAYERS.items():
        arms = L.prop_arms(F, spec["exec"]) or {}
        f = F.fn(spec["exec"])
        info = arms.get("Payload")
        if lname == "pcap":
            continue
        if not R.ob("payload-getter", lname, info is not None and info["kind"] == "payload", "Payload arm present", F.loc(f)):
            continue
        want = None if lname == "packet" else "%s.offset" % arg_name(f)
        R.ob("payload-offset", lname, info.get("skip") == want, "payload iterates rawdata skipping %s (want %s)" % (info.get("skip"), want),
             F.loc(f, info["line"]))

    # ---- (e2) where the payload / inner layer begins: off + the header length the length field delimits -----------------
    # fixed-size headers: off + size; IPv4: off + max(4·IHL, 20) (RFC 791: IHL counts 32-bit words, minimum 5);
    # TCP: off + max(4·DataOffset, 20) (RFC 9293).  The scaled quantity must be exactly the bits of that field —
    # an unmasked shift (reserved bits leak in) or a clamp against another field moves the payload.
    HDRLEN = {"ipv4": ("ihl", 4), "tcp": ("dataoff", 4)}
    for lname, spec in L.LAYERS.items():
        if not spec.get("pkt") or lname == "packet":
            continue
        form = C.offset_form(F, spec["decoder"], spec["pkt"] + "$")
        size = ref["layers"][lname]["size"]
        if lname in HDRLEN:
            fld, unit = HDRLEN[lname]
            kind, bits = L.parse_spec(ref["layers"][lname]["props"][fld])
            want_bits = [("in", b, j) for b, j in reversed(bits)]      # LSB first
            ok = bool(form) and form[0] == "scaled" and form[1] == size and form[2] == unit and form[3] == want_bits
            R.ob("payload-start", lname, ok, "decoder stores offset = off + %s; reference: off + max(%d·%s, %d) with %s = %s"
                 % (form[1:] if form else None, unit, fld, size, fld, ref["layers"][lname]["props"][fld]), F.loc(F.fn(spec["decoder"])))
        else:
            R.ob("payload-start", lname, bool(form) and form == ("const", size), "decoder stores offset = off + %s; reference header size %d"
                 % (form[1:] if form else None, size), F.loc(F.fn(spec["decoder"])))

    # ---- (f) name tables ------------------------------------------------------------------------------------------------
    vs = F.enum_variants("code::prop::PacketPropType") or []
    discr = dict(vs)
    fu = F.fn("<code::prop::PacketPropType as std::convert::From<u8>>::from")
    if R.anchor("From<u8> for PacketPropType", fu):
        conv = _byte_table(F, fu)
        bad = [(b, (conv or {}).get(b)) for b in range(256)
               if (conv or {}).get(b) != ([n for n, d in vs if d == b and n != "Invalid"] or ["Invalid"])[0]]
        R.ob("prop-from-u8", "all 256 byte values", not bad, "mismatches %s" % bad[:5])
    for n, d in vs:
        if n == "Invalid":
            continue
        R.ob("prop-handled", n, n in handled, "some exec_prop_* function has an arm for %s" % n, nontrivial=False)
    R.ob("prop-names-unique", "display names are unique", len(set(names.values())) == len(names), "")
    pm = lazy_init(F, "parser::rules::PACKET_PROP_MAP")
    if R.anchor("PACKET_PROP_MAP initialiser", pm):
        txt = H.render(H.body_of(pm))
        got, why = _map_population(F, pm, conv if not bad else None, discr)
        want = sorted(n for n, d in vs if n != "Invalid")
        ok = got is not None and sorted(got) == want
        R.ob("prop-map", "PACKET_PROP_MAP = Display name of every variant below Invalid", ok,
             "the loop inserts (v.to_string(), v) for v in %s%s" % ("%d variants" % len(got) if got is not None else None, "; " + why if why else ""), F.loc(pm))
        extra = re.findall(r'map\.insert\("([a-z]+)"\.to_string\(\), PacketPropType::([A-Za-z]+)\)', txt)
        R.ob("prop-map", "aliases", extra == [("nsec", "USec")], "aliases: %s" % extra, F.loc(pm))

    # ---- (g) truncated layers yield an error object -----------------------------------------------------------------------
    for lname, spec in L.LAYERS.items():
        g = C.min_length_guard(F, spec["decoder"])
        dec, _ = C.decode_struct(F, spec["decoder"], spec["hdr"] + "$")
        reads = [o[1] for bits in (dec or {}).values() if isinstance(bits, list) for o in bits if isinstance(o, tuple) and o[0] == "in"]
        need = (max(reads) + 1) if reads else 0
        R.ob("decoder-length-guard", lname, g is not None and g.k >= need and g.k == ref["layers"][lname]["size"],
             "prologue requires %s bytes (reference header size %d, highest byte read %d)" % (g.k if g is not None else None, ref["layers"][lname]["size"], need - 1))
    dx = F.fn("vm::interpreter::VM::exec_dollar_expr")
    if R.anchor("exec_dollar_expr", dx):
        txt = H.render(H.body_of(dx))
        R.ob("dollar-depth-bound", "$n beyond MAX_PROTO_DEPTH is an error", "if (depth > MAX_PROTO_DEPTH) {return v1::Err(" in txt, "", F.loc(dx))


def arg_name(f):
    p = f["hir"]["params"]
    return p[1].get("name") if len(p) > 1 else "?"


def fmt(bits):
    out = []
    for o in bits[::-1]:
        if isinstance(o, tuple):
            out.append("b%d.%d" % (o[1], o[2]))
        else:
            out.append(str(o))
    return " ".join(out)
