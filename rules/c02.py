"""C02 — compiled programs behave as the reference semantics prescribes
(structural clauses: evaluation order, operator → opcode tables, slot
provenance, height bookkeeping, rejections; run-time values are not decided)."""
import json
import os
import re

from .lib import hir as H
from .lib import decide as DT
from .lib import emit as E
from .lib import e5run
from .lib import facts as factsmod
from .lib.vmarms import vm_arms
from .lib.vmeffects import Lin

EXPL = ("Differential agreement of a compiled run with direct evaluation quantifies over run-time values and is not decided. "
        "Decided, for every program shape (induction over the AST by the emission verifier E5, tables by E2): (i) "
        "evaluation order: for every expression kind the order in which compile_expression compiles its operands equals "
        "the order the property prescribes (left to right; assignment: value then target; `<`/`<=`: right then left, "
        "mapped to Greater/GreaterEq), child lists are iterated forwards, and the VM's handlers take operands off the "
        "stack in the matching order (binary_op pops right then left and applies op(left, right); Equal/NotEqual; "
        "build_array/build_map/call_builtin copy ascending slots); (ii) operator string → opcode and opcode → operator "
        "closure tables are the reference tables; literal kind → constant kind; (iii) every arm leaves the height its "
        "class prescribes and every jump is patched once and lands at an equal height (shared with C07/C05: a dropped "
        "Pop, a missing patch, a wrong count operand are reported here too); (iv) name slots: the operand of Define*/"
        "Get*/Set* is the index of the symbol resolved/defined for that very name; parameters take indices 0..n-1 in "
        "order; (v) rejections: undefined name, break/continue outside a loop or with an unknown label, return outside "
        "a function (main and filter scopes) are compile errors on every path, before anything is emitted for them; "
        "every CompileError site is classified in tables/compile_errors.json (fault the property lists / construct "
        "outside the property's language / C14 encoding), an unclassified one is reported.")

C = "compiler::Compiler::"
BIN_REF = {"+": "Add", "-": "Sub", "*": "Mul", "/": "Div", "%": "Mod", "==": "Equal", "!=": "NotEqual", ">": "Greater", "<": "Greater",
           ">=": "GreaterEq", "<=": "GreaterEq", "&": "And", "|": "Or", "^": "Xor", "<<": "ShiftLeft", ">>": "ShiftRight"}
UN_REF = {"!": "Bang", "-": "Minus", "~": "Not", "$": "Dollar"}
VM_CLOSURES = {"Add": "(a + b)", "Sub": "(a - b)", "Mul": "(a * b)", "Div": "(a / b)", "Mod": "(a % b)", "Greater": "Object::Bool((a > b))", "GreaterEq": "Object::Bool((a >= b))",
               "And": "(a & b)", "Or": "(a | b)", "Xor": "(a ^ b)", "ShiftLeft": "(a << b)", "ShiftRight": "(a >> b)"}
LITERALS = {"Integer": "Object::Integer", "Float": "Object::Float", "Str": "Object::Str", "Char": "Object::Char", "Byte": "Object::Byte"}
SHARED = {"jump-landing-height", "jump-patched-once", "back-jump-height", "loop-exit-height", "jump-operand", "join-height", "join-scope", "peephole-remove",
          "peephole-state", "loop-stack-balance", "loop-fixpoint", "loop-height", "break-bookkeeping", "compile-error-dropped", "return-guard", "opcode-effect",
          "operand-underflow", "function-ends-with-return", "scope-pairing", "child-order"}


def ops_of(s, ckey, pname):
    """operator strings the path is feasible for, from the string patterns it matched / did not match; None = any other.
    ckey is the canonical (name-independent) key of the operator field, e.g. `$:Binary.operator`"""
    pos = e5run.cfact(s, pname, "strpat", ckey) or ()
    neg = set(e5run.cfact(s, pname, "strnot", ckey) or ())
    if not pos:
        return None, neg
    cur = set(pos[0])
    for p in pos[1:]:
        cur &= set(p)
    return cur - neg, neg


def run(F, R, tier):
    R.explanation = EXPL
    R.assumptions += ["run-time values (arithmetic, builtins) are decided by C09/C10/C11, not here",
                      "A-access (see C07): the parser gives Set access only to the target of an assignment"]
    res = e5run.analyse(F, R)
    if not res["ok"]:
        R.ob("emission-verifier", "the compiler's code is inside the fragment the verifier interprets", False,
             "unsupported construct: %s" % res.get("unsupported"))
        return
    f = F.fn(C + "compile_expression")
    g = F.fn(C + "compile_statement")
    # ---- (iii) shared bookkeeping ---------------------------------------------------------------------------------------------------
    seen = set()
    for v in res["viol"]:
        rule, key, detail, line, facts = v
        if rule in SHARED and (rule, key) not in seen:
            seen.add((rule, key))
            R.ob(rule, key, False, detail, "src/compiler/mod.rs:%s" % line if line else "")
    for (var, ctx), r in sorted(res["expr"].items()):
        if ctx != "fn" or var == "Invalid":
            continue
        oks = [s for t, s in r["ends"] if t == "ok"]
        by = {}
        for s in oks:
            by.setdefault((e5run.access_of(s, r["pname"], var), e5run.left_of(s, r["pname"], var) if var == "Assign" else None), []).append(s)
        for (acc, left), ss in sorted(by.items(), key=repr):
            cls = e5run.expected_class(var, acc, left)
            if cls is None:
                continue
            want = Lin(e5run.CLASS_EFFECT[cls])
            R.ob("expr-arm-effect", "Expression::%s %s%s" % (var, "access=%s " % acc if acc else "", "target=%s" % left if left else ""),
                 all(s.h is not None and s.h == want for s in ss), "%d paths; height change %s, required %s" % (len(ss), sorted({e5run.fmt_h(s.h) for s in ss}), want), F.loc(f))
    for (var, ctx), r in sorted(res["stmt"].items()):
        if ctx != "fn":
            continue
        oks = [s for t, s in r["ends"] if t == "ok"]
        R.ob("stmt-arm-balance", "Statement::%s" % var, all(s.h is None or s.h == Lin(0) for s in oks) and all(not s.pend for s in oks),
             "%d paths; height change %s" % (len(oks), sorted({e5run.fmt_h(s.h) for s in oks})), F.loc(g), nontrivial=bool(oks))
    from .lib.vmeffects import lmin
    bad = []
    n = 0
    for table, floors in ((res["stmt"], None), (res["expr"], e5run.CLASS_FLOOR)):
        for (var, ctx), r in table.items():
            for t, s in r["ends"]:
                if t != "ok":
                    continue
                n += 1
                if floors is None:
                    fl = Lin(0)
                else:
                    cls = e5run.expected_class(var, e5run.access_of(s, r["pname"], var), e5run.left_of(s, r["pname"], var) if var == "Assign" else None)
                    if cls is None:
                        continue
                    fl = Lin(floors[cls])
                if not (lmin(s.minh, fl) == fl):
                    bad.append("%s[%s] reaches %s" % (var, ctx, s.minh))
    R.ob("arm-floor", "no emitted instruction consumes operands below what its construct was given (all statement and expression arms)", not bad and n > 500,
         "%d paths; violations: %s" % (n, sorted(set(bad))[:3]))
    from .c05 import matches_type_table
    matches_type_table(F, R)
    # ---- (i) evaluation order ------------------------------------------------------------------------------------------------------------
    def paths(var):
        r = res["expr"].get((var, "fn"))
        return ([s for t, s in r["ends"] if t == "ok"], r) if r else ([], None)

    oks, r = paths("Binary")
    seen_ops = {}
    bad = []
    for s in oks:
        ops, neg = ops_of(s, "$:Binary.operator", r["pname"])
        order = tuple(o[0] for o in e5run.corder(s, r["pname"]))
        em = [e[0] for e in s.emits]
        if ops is None:
            continue
        for o in sorted(ops):
            if o in ("&&", "||"):
                want_order = ("$:Binary.left", "$:Binary.right")
                want_em = ["JumpIfFalseNoPop", "Pop"] if o == "&&" else ["JumpIfFalseNoPop", "Jump", "Pop"]
                okp = order == want_order and em == want_em
            else:
                want_order = ("$:Binary.right", "$:Binary.left") if o in ("<", "<=") else ("$:Binary.left", "$:Binary.right")
                okp = order == want_order and em == [BIN_REF.get(o)]
            seen_ops.setdefault(o, []).append(okp)
            if not okp:
                bad.append((o, order, em))
    for o in sorted(set(BIN_REF) | {"&&", "||"}):
        got = seen_ops.get(o)
        if o in ("&&", "||"):
            what = "`%s`: left operand, then the right operand only behind JumpIfFalseNoPop%s" % (o, "" if o == "&&" else " / Jump")
        elif o in ("<", "<="):
            what = "`%s`: right operand, then left operand, then %s" % (o, BIN_REF[o])
        else:
            what = "`%s`: left operand, then right operand, then %s" % (o, BIN_REF[o])
        R.ob("operand-order", what, bool(got) and all(got), "no path compiles this operator" if not got else str([b for b in bad if b[0] == o][:2]), F.loc(f))
    oks, r = paths("Unary")
    got = {}
    for s in oks:
        ops, _ = ops_of(s, "$:Unary.operator", r["pname"])
        for o in (ops or ()):
            got[o] = (tuple(x[0] for x in e5run.corder(s, r["pname"])), [e[0] for e in s.emits])
    for o, opc in sorted(UN_REF.items()):
        R.ob("operand-order", "unary `%s`: operand, then %s" % (o, opc), got.get(o) == (("$:Unary.right",), [opc]), str(got.get(o)), F.loc(f))
    simple = {
        "Assign": [("$:Assign.right", "$:Assign.left")],
        "Index": [("$:Index.left", "$:Index.index")],
        "Dot": [("$:Dot.left", "$:Dot.property")],
        "Array": [(), ("$:Array.elements[]",)],
        "Hash": [(), ("$:Hash.pairs[].0", "$:Hash.pairs[].1")],
        "Call": [("$:Call.func",), ("$:Call.func", "$:Call.args[]")],
    }
    texts = {"Assign": "assignment: the value, then the target's sub-expressions", "Index": "indexing: the indexed expression, then the index",
             "Dot": "property: the object, then the property", "Array": "array literal: elements", "Hash": "map literal: key then value per pair",
             "Call": "call: the callee, then the arguments"}
    for var, want in simple.items():
        oks, r = paths(var)
        orders = sorted({tuple(o[0] for o in e5run.corder(s, r["pname"]) if o != ("…",)) for s in oks})
        R.ob("operand-order", texts[var], bool(oks) and all(o in want for o in orders) and want[-1] in orders, str(orders), F.loc(f))
    # forward iteration over child lists: decided inside the emission verifier (rule `child-order`: a loop over a
    # reversed AST list, or an in-place modification (sort, reverse, swap, retain, ..) of an AST list before it is
    # compiled, in any function the verifier interprets, helpers included)
    co = [v for v in res["viol"] if v[0] == "child-order"]
    R.ob("forward-iteration", "child lists (elements, pairs, arguments, parameters, statements, arms, patterns) are compiled in source order",
         not co, "; ".join(sorted({v[1] for v in co}))[:300], F.loc(f))
    # VM side
    arms = vm_arms(F, R)
    from .lib.vmarms import operator_dispatchers
    disp = operator_dispatchers(F, R)

    def pops_then_apply(g):
        """the operands a dispatcher pops, in the order it pops them, and the operator applications op(x, y) with x and y
        traced to those pops (helpers such as `pop_operands(line)? -> (left, right)` read in place; names do not matter)"""
        KEEP = ("pop", "push", "peek", "top")
        b = H.split_tuple_lets(H.untry_inlined(H.inline_helpers(F, H.body_of(g), max_size=120, skip=lambda c_: H.last(c_) in KEEP or (F.fns.get(c_) or {}).get("file") != g["file"])))
        lets = {x["pat"]["id"]: x["init"] for x in H.walk(b) if x.get("k") == "let" and x.get("pat", {}).get("k") == "bind" and x.get("init") is not None}
        pops = []      # ids of the locals bound to self.pop(..)?, in evaluation order
        for x in H.walk(b):
            if x.get("k") == "let" and x.get("pat", {}).get("k") == "bind" and x.get("init") is not None:
                i_ = H.strip(H.untry(x["init"]))
                if i_.get("k") == "mcall" and (i_.get("callee") or "").endswith("VM::pop"):
                    pops.append(x["pat"]["id"])

        def src(e, d=0):
            e = H.strip(e)
            while d < 6 and H.is_local(e) and H.local_id(e) not in pops and H.local_id(e) in lets:
                e = H.strip(lets[H.local_id(e)])
                d += 1
            return H.local_id(e) if H.is_local(e) else None
        params = {p_.get("id") for p_ in g["hir"]["params"]}
        apps = [c for c in H.walk(b) if c.get("k") == "call" and H.is_local(H.strip(c.get("f") or {})) and H.local_id(H.strip(c["f"])) in params and len(c.get("args", [])) == 2]
        return pops, [(src(c["args"][0]), src(c["args"][1])) for c in apps], [H.render(c) for c in apps]
    for role, what in (("binary", "binary_op"), ("bitwise", "bitwise_op")):
        g = F.fn(disp[role]) if disp[role] else None
        if not R.anchor("VM::" + what, g):
            continue
        pops, apps, texts_ = pops_then_apply(g)
        R.ob("vm-operand-order", "%s pops the right operand first, then the left" % what, len(pops) == 2, "%d operands popped" % len(pops), F.loc(g))
        if len(pops) == 2:
            R.ob("vm-operand-order", "%s applies op(left, right): the value popped second is the left operand" % what,
                 bool(apps) and all(a_ == (pops[1], pops[0]) for a_ in apps), str(sorted(set(texts_))), F.loc(g))
    if arms:
        for op, want in sorted(VM_CLOSURES.items()):
            a = arms.get(op)
            if not R.anchor("VM arm " + op, a):
                continue
            cl = [x for x in H.walk(a["body"]) if x.get("k") == "closure"]
            t = H.render(cl[0]["body"]) if cl else ""
            ps = [p.get("name") for p in cl[0].get("params", [])] if cl else []
            R.ob("vm-operator-table", "%s applies %s to (left, right)" % (op, want), len(cl) == 1 and t == want and ps == ["a", "b"], "%s |%s|" % (t, ps), "src/vm/interpreter.rs:%s" % a["line"])
        # Equal / NotEqual: two pops, one Bool pushed, true exactly when the operands are (not) equal through Object's
        # PartialEq — C09's eq-ne rule, evaluated there on the normalised arm and linked here
        from . import c09 as _c09eq
    ba = F.fn("vm::interpreter::VM::build_array")
    if R.anchor("VM::build_array", ba):
        t = H.render(H.body_of(ba))
        R.ob("vm-operand-order", "build_array copies stack[start..end] in ascending order", "ops::Range{start: start_index, end: end_index}" in t and "elements.push(self.stack[i].clone())" in t and ".rev()" not in t, t[:200], F.loc(ba))
    bm = F.fn("vm::interpreter::VM::build_map")
    if R.anchor("VM::build_map", bm):
        nb = H.unlet(H.body_of(bm))
        t = H.render(nb)
        ins = [c for c in H.walk(nb) if c.get("k") == "mcall" and c["m"] == "insert" and len(c.get("args", [])) == 2]
        lets_m = {x["pat"]["id"]: x["init"] for x in H.walk(nb) if x.get("k") == "let" and x.get("pat", {}).get("k") == "bind" and x.get("init") is not None}
        def src_(e):
            # a key / value given a name first (`let key = self.stack[i].clone();`) is the element it was read from
            e2 = H.strip(e)
            if H.is_local(e2) and H.local_id(e2) in lets_m:
                return lets_m[H.local_id(e2)]
            return e
        kv = [(DT.canon_text(src_(c["args"][0])), DT.canon_text(src_(c["args"][1]))) for c in ins]
        m_ = re.fullmatch(r"self\.stack\[(\w+)\]", kv[0][0]) if len(kv) == 1 else None
        stepping = "step_by(2)" in t
        if not stepping and m_ is not None:
            # the same walk written as a counter: starts at the first index, `while i < end`, advanced by 2 once per round
            iv = m_.group(1)
            inits = [x for x in H.walk(H.body_of(bm)) if x.get("k") == "let" and x.get("pat", {}).get("name") == iv and x.get("init") is not None]
            adv = [x for x in H.walk(H.body_of(bm)) if x.get("k") == "assignop" and H.render(x["l"]) == iv]
            pnames = [p_.get("name") for p_ in bm["hir"]["params"]]
            conds = [x for x in H.walk(H.body_of(bm)) if x.get("k") == "bin" and x["op"] == "<" and H.render(x["l"]) == iv and H.render(H.strip(x["r"])) in pnames]
            stepping = len(inits) == 1 and H.render(H.strip(inits[0]["init"])) in pnames and len(adv) == 1 and adv[0]["op"].startswith("+") and \
                H.render(H.strip(adv[0]["r"])) == "2" and len(conds) >= 1
        ok = stepping and m_ is not None and kv[0][1] == "self.stack[(%s + 1)]" % m_.group(1)
        R.ob("vm-operand-order", "build_map takes key = stack[i], value = stack[i + 1], i stepping by 2", ok, "inserts %s; index advanced by 2: %s" % (kv, stepping), F.loc(bm))
    # ---- (ii) literal kinds ---------------------------------------------------------------------------------------------------------------
    for var, ctor in sorted(LITERALS.items()):
        oks, r = paths(var)
        cs = {e[1][0] for s in oks for e in s.emits if e[0] == "Constant"}
        R.ob("literal-constant", "%s literal → Constant(%s(value))" % (var, ctor), len(cs) == 1 and re.fullmatch(r"const:%s\(\w+\.value\)" % re.escape(ctor), next(iter(cs))) is not None, str(sorted(cs)), F.loc(f))
    oks, r = paths("Bool")
    tf = {(e5run.cfact(s, r["pname"], "cond", "$:Bool.value"), tuple(e[0] for e in s.emits)) for s in oks}
    R.ob("literal-constant", "boolean literal → True / False by its value", tf == {(True, ("True",)), (False, ("False",))}, str(sorted(tf, key=repr)), F.loc(f))
    oks, r = paths("Null")
    R.ob("literal-constant", "null literal → Null", {tuple(e[0] for e in s.emits) for s in oks} == {("Null",)}, "", F.loc(f))
    # ---- (iv) slots -----------------------------------------------------------------------------------------------------------------------
    cs = F.fn(C + "compile_statement")
    if cs is not None:
        b = H.body_of(cs)
        m = [x for x in H.walk(b) if x.get("k") == "match" and not H.is_try(x) and H.render(x["scrut"]) == "stmt"][0]
        for a in m["arms"]:
            var = [H.last(v) for v in H.pat_variants(a["pat"])]
            if not var or var[0] not in ("Let", "Function"):
                continue
            body = a["body"]
            KEEP = ("define", "compile_let_stmt", "compile_function_literal", "compile_expression", "emit")
            ib = H.beta(H.split_tuple_lets(H.inline_helpers(F, body, skip=lambda c: H.last(c) in KEEP)))
            nb = H.beta(H.unlet(ib))
            name = "stmt.name.value" if var[0] == "Let" else "func.name"
            # the one definition: symtab.define(<this statement's name>, <the current scope's block depth>)
            defs = {DT.canon_text(c) for c in H.walk(nb) if c.get("k") == "mcall" and (c.get("callee") or "").endswith("SymbolTable::define")}
            DEF = "self.symtab.define(%s, self.scopes[self.scope_index].scope_depth)" % name
            okd = defs == {DEF}
            ems = [c for c in H.walk(nb) if c.get("k") == "mcall" and c["m"] == "emit" and (H.last(H.ctor_of(H.strip(c["args"][0])) or "")).startswith("Define")]
            # ... or one emit whose opcode is chosen first (`let op = if .. {DefineGlobal} else {DefineLocal}; emit(op, ..)`)
            ems1 = [c for c in H.walk(nb) if c.get("k") == "mcall" and c["m"] == "emit" and c.get("args") and not (H.last(H.ctor_of(H.strip(c["args"][0])) or "")) and
                    any("Define" in (H.ctor_of(x) or "") for x in H.walk(c["args"][0]))]
            all_ems = ems + ems1
            oke = (len(ems) == 2 or (not ems and len(ems1) == 1)) and all(DT.canon_text(c["args"][1]) == "[%s.index]" % DEF for c in all_ems)
            # which Define: by the symbol's own scope — the decision table of the conditional around the emits (or of the opcode
            # expression of the single emit)
            if ems1 and not ems:
                target = ems1[0]["args"][0]
            else:
                holders = sorted([x for x in H.walk(nb) if x.get("k") in ("if", "match") and not H.is_try(x) and sum(1 for c in H.walk(x) if any(c is e for e in ems)) == 2], key=H._size)
                target = holders[0] if holders else None
            oks_, sdet = False, "no conditional around the Define emits"
            if target is not None:
                rows, why = DT.table_expr(F, target, inline=False)
                sdet = why
                if rows is not None:
                    rows2 = [(e_, "DefineGlobal" if "DefineGlobal" in str(r_) else ("DefineLocal" if "DefineLocal" in str(r_) else str(r_)[:30])) for e_, r_ in rows]
                    keys = {k_ for e_, _ in rows2 for k_ in e_}
                    oks_, sdet = DT.check(rows2, [(r"^%s\.scope : SymbolScope$" % re.escape(DEF), "scope")], {"scope": ("Global", "Local", "Free", "BuiltinFn", "BuiltinVar", "Function")},
                                          lambda e_: "DefineGlobal" if e_["scope"] == "Global" else "DefineLocal")
                    oks_ = oks_ and bool(keys)
            # the symbol is defined before the value is compiled (recursive functions), the Define follows the value
            seq = []
            lets_ib = {x["pat"]["id"]: x["init"] for x in H.walk(ib) if x.get("k") == "let" and x.get("pat", {}).get("k") == "bind" and x.get("init") is not None}
            for c in E.eval_order(ib):
                if c.get("k") not in ("call", "mcall"):
                    continue
                nm = H.last(c.get("callee") or "")
                if nm == "define" and (c.get("callee") or "").endswith("SymbolTable::define"):
                    seq.append("define")
                elif nm in ("compile_let_stmt", "compile_function_literal"):
                    seq.append("value")
                elif nm == "emit" and ((H.last(H.ctor_of(H.strip(c["args"][0])) or "")).startswith("Define") or
                                       any("Define" in (H.ctor_of(x) or "") for x in H.walk(lets_ib.get(H.local_id(H.strip(c["args"][0])), c["args"][0])))):
                    if seq[-1:] != ["emit"]:
                        seq.append("emit")
            R.ob("slot-provenance", "Statement::%s: the Define* operand is the index of the symbol defined for this name, global/local by the symbol's scope" % var[0],
                 okd and oke and oks_ and seq == ["define", "value", "emit"], "definitions %s; operands %s; %s; sequence %s" % (
                     sorted(defs), sorted({DT.canon_text(c["args"][1]) for c in ems}), sdet, seq), F.loc(cs))
    ci = F.fn(C + "compile_identifier")
    if R.anchor(C + "compile_identifier", ci):
        b = H.body_of(ci)
        t = H.render(b)
        ifl = [x for x in H.walk(b) if x.get("k") == "if" and H.strip(x["c"]).get("k") == "let"]
        ok = len(ifl) == 1 and H.render(ifl[0]["c"]).endswith("= self.symtab.resolve(&expr.token.literal, depth)") and "e" in ifl[0] and H.diverges(ifl[0]["e"]) and \
            "v1::Err" in H.render(ifl[0]["e"]) and not [c for c in H.walk(ifl[0]["e"]) if c.get("k") == "mcall" and c["m"] == "emit"]
        R.ob("undefined-name-rejected", "a name the symbol table does not resolve is a compile error and nothing is emitted for it", ok, t[:200], F.loc(ci))
        calls = [(c["m"], H.render(H.strip(c["args"][0]))) for c in H.walk(b) if c.get("k") == "mcall" and c["m"] in ("load_symbol", "save_symbol")]
        R.ob("slot-provenance", "an identifier is loaded/stored through the symbol resolved for its own name", sorted(calls) == [("load_symbol", "symbol"), ("save_symbol", "symbol")], str(calls), F.loc(ci))
    from . import c04 as _c04  # symbol scope → opcode table is C04's rule; evaluated here as well (slot index operand)
    for fn, want in (("load_symbol", 6), ("save_symbol", 3)):
        h = F.fn(C + fn)
        if R.anchor(C + fn, h):
            ems = [c for c in H.walk(H.body_of(h)) if c.get("k") == "mcall" and c["m"] == "emit"]
            R.ob("slot-provenance", "%s: every emitted operand is sym.index" % fn, len(ems) == want and all(H.render(c["args"][1]) == "&[sym.index]" for c in ems),
                 "%d emits" % len(ems), F.loc(h))
    fl = F.fn(C + "compile_function_literal")
    if R.anchor(C + "compile_function_literal", fl):
        b = H.body_of(fl)
        seq = []
        for st in b.get("stmts", []):
            t = H.render(st.get("init") if st["k"] == "let" else st.get("e"))
            if "enter_scope" in t:
                seq.append("enter")
            elif "define_function_name" in t:
                seq.append("fname")
            elif "self.symtab.define(&p.value, 0)" in t:
                seq.append("params")
            elif "compile_block_statement" in t:
                seq.append("body")
            elif "leave_scope" in t:
                seq.append("leave")
        R.ob("slot-provenance", "parameters are defined first and in order in the function's own scope (indices 0..n-1 = the argument slots above bp)",
             seq == ["enter", "fname", "params", "body", "leave"], str(seq), F.loc(fl))
        ne = F.fn("compiler::symtab::SymbolTable::new_enclosed")
        if R.anchor("SymbolTable::new_enclosed", ne):
            t = H.render(H.body_of(ne))
            R.ob("slot-provenance", "an enclosed symbol table starts with no definitions", "num_definitions" not in t or "num_definitions: 0" in t, t[:160], F.loc(ne), nontrivial=False)
    from .lib import emit as _E
    _E.num_locals_rule(F, R, "compile_function_literal", "a function's frame reserves one slot per parameter and local of its own scope")
    _E.num_locals_rule(F, R, "compile_filter_statement", "a filter's frame reserves one slot per local of its own scope")
    # ---- (v) rejections -----------------------------------------------------------------------------------------------------------------------
    g = F.fn(C + "compile_statement")
    for ctx in ("main", "filter", "fn"):
        r = res["stmt"].get(("Return", ctx))
        if not R.anchor("Statement::Return [%s]" % ctx, r):
            continue
        oks = [s for t, s in r["ends"] if t == "ok"]
        errs = [s for t, s in r["ends"] if t == "err"]
        if ctx == "fn":
            R.ob("return-accepted-in-function", "return inside a function body compiles to value + ReturnValue", bool(oks) and all([e[0] for e in s.emits][-1] == "ReturnValue" for s in oks),
                 str(sorted({tuple(e[0] for e in s.emits) for s in oks})), F.loc(g))
        else:
            R.ob("return-rejected-outside-function", "return in the %s scope is a compile error and emits nothing" % ("top-level" if ctx == "main" else "filter"),
                 not oks and bool(errs) and all(not s.emits for s in errs), "%d accepting paths" % len(oks), F.loc(g))
    for var in ("Break", "Continue"):
        r = res["stmt"].get((var, "fn"))
        if not R.anchor("Statement::%s arm" % var, r):
            continue
        empty_ok = [s for t, s in r["ends"] if t == "ok" and s.facts.get("ls_empty") is True]
        R.ob("loop-exit-rejected-outside-loop", "%s with an empty loop_stack is a compile error" % var.lower(),
             not empty_ok and any(t == "err" and s.facts.get("ls_empty") is True and not s.emits for t, s in r["ends"]), "%d accepting paths" % len(empty_ok), F.loc(g))
        errs = [s for t, s in r["ends"] if t == "err" and s.facts.get("ls_empty") is False]
        R.ob("loop-exit-unknown-label", "%s naming a label no enclosing loop carries is a compile error" % var.lower(), bool(errs), "%d rejecting paths" % len(errs), F.loc(g))
    # loop_stack is per compilation scope: a function body cannot break out of its definer's loop
    cs_adt = F.adts.get("compiler::CompilationScope")
    R.ob("loop-stack-per-scope", "loop_stack is a field of CompilationScope (a function or filter body starts with none)",
         bool(cs_adt) and any(fl.get("name") == "loop_stack" for v in cs_adt.get("variants", []) for fl in v.get("fields", [])), "")
    # ---- linked rule instances: the refinements of this property decided by their own checks ---------------------------------
    # C02 is the umbrella (compiled behaviour = reference semantics); control flow (C05), truthiness (C06) and the
    # operator model (C09) are its refinements.  Their rule instances are evaluated in this run; one that fails is a
    # violation of C02 as well (their recorded known findings stay with their own property).
    import importlib
    from .lib import core as _core
    known, _ = _core.load_known()
    for lp in ("C04", "C05", "C06", "C09"):
        try:
            mod = importlib.import_module("rules.%s" % lp.lower())
            R2 = _core.Report(lp)
            mod.run(F, R2, tier)
        except Exception as e:  # fail closed
            R.ob("linked-check", "%s could be evaluated" % lp, False, "%s: %s" % (type(e).__name__, e))
            continue
        bad = [o for o in R2.obls if not o.ok and (lp, o.rule, o.key) not in known]
        R.ob("linked-check", "%s: all %d rule instances hold" % (lp, len(R2.obls)), not bad, "%d failing" % len(bad), nontrivial=False)
        for o in bad[:12]:
            R.ob("linked:%s:%s" % (lp, o.rule), o.key, False, o.detail, o.loc)
        R.count("linked rule instances evaluated (%s)" % lp, len(R2.obls))
    # classification of all CompileError sites
    with open(os.path.join(factsmod.VERIF, "tables", "compile_errors.json")) as fh:
        table = json.load(fh)["errors"]
    n_sites = 0
    used = set()
    for p, h in sorted(F.fns.items()):
        if not p.startswith("compiler::"):
            continue
        b = H.body_of(h)
        if b is None:
            continue
        for c in H.walk(b):
            if c.get("k") == "call" and (c.get("callee") or "").endswith("CompileError::new"):
                n_sites += 1
                a0 = H.strip(c["args"][0])
                if a0.get("k") == "lit":
                    msg = a0["v"]
                else:
                    runs = []
                    for x in H.walk(c["args"][0]):
                        if x.get("k") == "lit" and x.get("lk") in ("str", "bytestr") and isinstance(x.get("v"), str):
                            runs += re.findall(r"[ -~]{4,}", x["v"])     # literal pieces of a format! template
                    msg = max(runs, key=len) if runs else H.render(a0)[:40]
                hit = [k for k in table if msg.startswith(k) or k.startswith(msg)]
                used |= set(hit)
                R.ob("compile-error-classified", "%s: \"%s\"" % (H.last(p), msg.strip()), bool(hit),
                     ("class %s: %s" % (table[hit[0]]["class"], table[hit[0]]["why"])) if hit else
                     "a compile error that tables/compile_errors.json does not classify: does the compiler still compile every program free of the listed faults?", F.loc(h, c.get("line")))
    R.floor("CompileError sites", n_sites, 18)
    for k in sorted(set(k for k, v in table.items() if v["class"] == "fault") - used):
        R.ob("fault-rejected", "the compiler raises \"%s…\"" % k, False, "the rejection the property names is no longer in the compiler")
