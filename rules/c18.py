"""C18 — MAC / IPv4 / IPv6 address text (structural part only).

What is decided: the *writer's and the reader's tables agree* and match the standard forms — for each address type
the separator, the radix, the number of groups, the width of a group and the order of the groups are the same in
`Display::fmt` (what a property read shows) and in `from_str` (what an assignment accepts), and equal the reference
(MAC: 6 groups of 8 bits in hex separated by ':'; IPv4: 4 decimal groups of 8 bits separated by '.'; IPv6: 8 hex
groups of 16 bits separated by ':'), and a text that `from_str` rejects reaches the script as a runtime error without
anything having been stored.  These are necessary conditions of "assigning the displayed text back stores the same
address" and of "wrong number of groups / out-of-range groups are rejected".

What is NOT decided: which texts the IPv6 parser accepts (`::` at the beginning or the end, at most one `::`, the empty
text) — that is a fact about the values the compression loop computes, not about the shape of the code.  The check
therefore does not establish C18 as a whole; see DESIGN.md §4."""
import re

from .lib import hir as H
from .lib import fmtargs as FA

EXPL = ("Table agreement (E2) between Display::fmt and from_str of MacAddress / Ipv4Address / Ipv6Address and with the "
        "reference forms (separator, radix, group count, group width, group order), decided on the decoded format_args! "
        "template and on the parse primitive the reader applies to each group (helpers inlined); plus the error "
        "discipline of the six address setters: a rejected text is an Err before any store.  Acceptance of RFC 4291 "
        "compression forms is value-level and not decided (the check is a necessary-condition check, not the property).")

PP = "builtins::protocols::"
REF = {
    "MacAddress": {"mod": "macaddress", "sep": ":", "radix": 16, "groups": 6, "bits": 8, "src": "IEEE 802: six octets in hexadecimal separated by colons"},
    "Ipv4Address": {"mod": "ipv4addr", "sep": ".", "radix": 10, "groups": 4, "bits": 8, "src": "RFC 791 / dotted quad"},
    "Ipv6Address": {"mod": "ipv6addr", "sep": ":", "radix": 16, "groups": 8, "bits": 16, "src": "RFC 4291 section 2.2"},
}
RADIX_OF_TRAIT = {"UpperHex": 16, "LowerHex": 16, "Display": 10, "Octal": 8, "Binary": 2}


def run(F, R, tier):
    R.explanation = EXPL
    R.assumptions += ["u8/u16::from_str_radix and str::parse::<u8> accept exactly the numerals of their radix that fit the type (std)",
                      "acceptance of IPv6 zero-compression forms is not decided here"]
    n_types = 0
    for ty, ref in REF.items():
        base = PP + ref["mod"] + "::" + ty
        disp = F.fn("<%s as std::fmt::Display>::fmt" % base)
        fs = F.fn(base + "::from_str")
        if not (R.anchor("Display for " + ty, disp) and R.anchor(ty + "::from_str", fs)):
            continue
        n_types += 1
        # ---- writer -----------------------------------------------------------------------------------------------
        sites = [p for _, p in FA.sites(H.body_of(disp))]
        parts = [x for p in sites for x in p]
        args = [x for x in parts if x[0] == "arg"]
        lits = [x[1] for x in parts if x[0] == "lit"]
        w_sep = set(lits)
        w_radix = {RADIX_OF_TRAIT.get(a[2], "?" + a[2]) for a in args}
        w_order = [H.render(a[1]) for a in args]
        alternating = all((i % 2 == 0) == (x[0] == "arg") for i, x in enumerate(parts)) and len(parts) == 2 * len(args) - 1
        R.ob("address-writer", "%s: Display writes %d groups separated by %r in radix %s" % (ty, ref["groups"], ref["sep"], ref["radix"]),
             len(args) == ref["groups"] and w_sep == {ref["sep"]} and w_radix == {ref["radix"]} and alternating,
             "Display: %d groups, separators %s, radix %s (%s)" % (len(args), sorted(w_sep), sorted(map(str, w_radix)), ref["src"]), F.loc(disp))
        R.ob("address-group-order", "%s: Display shows the groups in storage order" % ty, w_order == ["self.%d" % i for i in range(len(args))], str(w_order), F.loc(disp))
        # ---- reader (helpers such as parse_octet inlined) -------------------------------------------------------------
        body = H.inline_helpers(F, H.body_of(fs))
        seps = {H.strip(c["args"][0]).get("v") for c in H.walk(body) if c.get("k") == "mcall" and c["m"] in ("split", "splitn", "split_terminator", "rsplit")
                and c.get("args") and H.strip(c["args"][0]).get("k") == "lit"}
        prim = []
        for c in H.walk(body):
            cal = c.get("callee") or ""
            m = re.search(r"core::num::<impl (u\d+)>::from_str_radix$", cal)
            if m and c.get("k") in ("call", "mcall"):
                a = c.get("args", [])
                rx = H.strip(a[-1]) if a else {}
                prim.append((m.group(1), rx.get("v") if rx.get("k") == "lit" else "?"))
            elif c.get("k") == "mcall" and c["m"] == "parse" and cal.endswith("::parse"):
                t = re.match(r"std::result::Result<(u\d+|i\d+),", c.get("ty") or "")
                prim.append((t.group(1) if t else "?", 10))
        counts = set()
        for x in H.walk(body):
            if x.get("k") == "bin" and x["op"] in ("!=", "==", ">", "<", ">=", "<="):
                for a, b in ((x["l"], x["r"]), (x["r"], x["l"])):
                    a, b = H.strip(a), H.strip(b)
                    if b.get("k") == "lit" and b.get("lk") == "int" and a.get("k") == "mcall" and a["m"] in ("len", "count"):
                        counts.add(b["v"])
        R.ob("address-reader", "%s: from_str splits at %r and reads each group as a %d-bit numeral in radix %s" % (ty, ref["sep"], ref["bits"], ref["radix"]),
             seps == {ref["sep"]} and bool(prim) and set(prim) == {("u%d" % ref["bits"], ref["radix"])},
             "from_str: separators %s, group primitive(s) %s" % (sorted(map(str, seps)), sorted(set(prim), key=str)), F.loc(fs))
        R.ob("address-group-count", "%s: from_str tests the number of groups against %d" % (ty, ref["groups"]), ref["groups"] in counts,
             "group-count tests against %s" % sorted(counts), F.loc(fs))
        R.ob("address-tables-agree", "%s: Display and from_str use the same separator and radix" % ty,
             w_sep == seps and len(w_radix) == 1 and {r_ for _, r_ in prim} == w_radix,
             "writer (%s, %s) / reader (%s, %s)" % (sorted(w_sep), sorted(map(str, w_radix)), sorted(map(str, seps)), sorted({str(r_) for _, r_ in prim})), F.loc(fs))
        # groups are stored in the order they were read: the value built is T(p[0], p[1], ..)
        ctor = [c for c in H.walk(body) if c.get("k") == "call" and (c.get("ctor") or "").endswith("::" + ty) or
                (c.get("k") == "call" and H.last(c.get("ctor") or "") in ("Self", ty))]
        order_ok = False
        det = "constructor not found"
        for c in ctor:
            idx = []
            for a in c.get("args", []):
                a = H.strip(a)
                i = H.strip(a["i"]) if a.get("k") == "index" else None
                idx.append(i.get("v") if i is not None and i.get("k") == "lit" else H.render(a))
            if len(idx) == ref["groups"]:
                det = "built from %s" % idx
                order_ok = idx == list(range(ref["groups"])) or len(set(map(str, idx))) == ref["groups"] and all(not isinstance(i, int) for i in idx)
        R.ob("address-group-order", "%s: from_str stores the groups in the order read" % ty, order_ok, det, F.loc(fs))
    R.floor("address types with writer and reader analysed", n_types, 3)
    # ---- setters: a rejected text is a runtime error and nothing is stored ------------------------------------------------
    n_set = 0
    for p, g in sorted(F.fns.items()):
        if not p.startswith(PP) or H.body_of(g) is None or "::set_" not in p:
            continue
        # normal form: a shared `set_address_property(obj, Addr::from_str, |a| store, msg)` helper applied to its arguments
        b = H.normal(F, H.body_of(g), keep=("from_str",))
        par = {}
        stack = [(b, None)]
        while stack:
            n, pa = stack.pop()
            if isinstance(n, dict):
                if "k" in n:
                    par[id(n)] = pa
                for v in n.values():
                    if isinstance(v, (dict, list)):
                        stack.append((v, n if "k" in n else pa))
            elif isinstance(n, list):
                for v in n:
                    stack.append((v, pa))
        for c in H.walk(b):
            cal = c.get("callee") or ""
            if c.get("k") == "call" and cal.startswith(PP) and cal.endswith("::from_str") and any(t in cal for t in REF):
                n_set += 1
                pa = par.get(id(c))
                ok, det = False, "the parse result is consumed by %s" % (pa.get("k") if pa else None)
                if pa is not None and pa.get("k") == "match" and not H.is_try(pa) and pa["scrut"] is c:
                    err_arms = [a for a in pa["arms"] if "Err" in {H.last(v) for v in H.pat_variants(a["pat"])}]
                    ok_arms = [a for a in pa["arms"] if "Ok" in {H.last(v) for v in H.pat_variants(a["pat"])}]
                    err_ret = bool(err_arms) and all(any(x.get("k") == "call" and H.last(x.get("ctor") or "") == "Err" for x in H.walk(a["body"])) for a in err_arms)
                    stores_in_err = any(x.get("k") in ("assign", "assignop") for a in err_arms for x in H.walk(a["body"]))
                    ok = err_ret and not stores_in_err and bool(ok_arms)
                    det = "Err arm yields Err(..): %s; stores in the Err arm: %s" % (err_ret, stores_in_err)
                elif pa is not None and (H.is_try(pa) or (pa.get("k") == "call" and H.last(pa.get("callee") or "") == "branch" and H.is_try(par.get(id(pa)) or {}))):
                    ok, det = True, "propagated with `?` before the store"
                elif pa is not None and pa.get("k") == "mcall" and pa["m"] in ("map_err",) and pa.get("recv") is c:
                    gp = par.get(id(pa))
                    if gp is not None and gp.get("k") == "call" and H.last(gp.get("callee") or "") == "branch":
                        gp = par.get(id(gp))   # `e?` is match Try::branch(e) { .. }
                    ok = gp is not None and H.is_try(gp)
                    det = "map_err(..)? before the store" if ok else det
                # nothing of the header is written before the parse succeeded
                R.ob("address-setter-discipline", "%s: %s" % (p[len(PP):], H.last(cal.rsplit("::", 1)[0])), ok, det, F.loc(g, c.get("line")))
        # in-place parsers (`addr.assign_str(s)`) store group by group and keep a half-written address on rejection
    R.floor("address parses in setters", n_set, 6)
    for ty, ref in REF.items():
        base = PP + ref["mod"] + "::" + ty
        muts = [p for p, g in F.fns.items() if p.startswith(base + "::") and g.get("hir") and g["hir"]["params"] and
                "&mut" in str(g["mir"]["locals"][1].get("ty") if g.get("mir") else "") and any(c.get("k") == "mcall" and c["m"] in ("split", "parse") or
                                                                                            "from_str_radix" in (c.get("callee") or "") for c in H.walk(H.body_of(g)))]
        R.ob("address-setter-discipline", "%s has no parser that writes into an existing address" % ty, not muts,
             "in-place parsers: %s (a text rejected at a later group leaves the earlier groups stored)" % muts if muts else "parsers build a new value", "")
