// MIR → JSON.  Places, rvalues, operands and terminators are structured; rare
// constructs fall back to their Debug text under the key "txt".
use crate::json::J;
use crate::span_info;
use rustc_hir::def_id::LocalDefId;
use rustc_middle::mir::*;
use rustc_middle::ty::{self, Instance, ScalarInt, Ty, TyCtxt, TypingEnv};

pub fn scalar_to_json<'tcx>(si: ScalarInt, ty: Ty<'tcx>) -> J {
    let size = si.size();
    match ty.kind() {
        ty::Int(_) => J::Int(si.to_int(size)),
        ty::Bool => J::Bool(si.to_uint(size) != 0),
        ty::Char => {
            let c = char::from_u32(si.to_uint(size) as u32).unwrap_or('\u{fffd}');
            J::Str(c.to_string())
        }
        ty::Float(_) => {
            let bits = si.to_uint(size);
            let f = if size.bytes() == 8 { f64::from_bits(bits as u64) } else { f32::from_bits(bits as u32) as f64 };
            J::Str(format!("f:{:?}", f))
        }
        _ => {
            let v = si.to_uint(size);
            if v <= i128::MAX as u128 { J::Int(v as i128) } else { J::Str(format!("{}", v)) }
        }
    }
}

struct Cx<'tcx, 'a> {
    tcx: TyCtxt<'tcx>,
    body: &'a Body<'tcx>,
    env: TypingEnv<'tcx>,
}

impl<'tcx, 'a> Cx<'tcx, 'a> {
    fn place(&self, p: &Place<'tcx>) -> J {
        let mut proj = Vec::new();
        let mut ty = PlaceTy::from_ty(self.body.local_decls[p.local].ty);
        for elem in p.projection.iter() {
            let j = match elem {
                ProjectionElem::Deref => J::s("*"),
                ProjectionElem::Field(f, _) => {
                    // field name when the base is an ADT
                    let mut name = String::new();
                    if let ty::Adt(adt, _) = ty.ty.kind() {
                        let v = match ty.variant_index {
                            Some(v) => Some(v),
                            None if adt.is_struct() => Some(rustc_abi::FIRST_VARIANT),
                            None => None,
                        };
                        if let Some(v) = v {
                            if let Some(fd) = adt.variant(v).fields.get(f) {
                                name = fd.name.as_str().to_string();
                            }
                        }
                    }
                    J::obj(vec![("f", J::Int(f.as_usize() as i128)), ("n", J::Str(name))])
                }
                ProjectionElem::Index(l) => J::obj(vec![("i", J::Int(l.as_usize() as i128))]),
                ProjectionElem::ConstantIndex { offset, min_length, from_end } => J::obj(vec![
                    ("ci", J::Int(offset as i128)),
                    ("min", J::Int(min_length as i128)),
                    ("from_end", J::Bool(from_end)),
                ]),
                ProjectionElem::Subslice { from, to, from_end } => J::obj(vec![
                    ("sub_from", J::Int(from as i128)),
                    ("sub_to", J::Int(to as i128)),
                    ("from_end", J::Bool(from_end)),
                ]),
                ProjectionElem::Downcast(name, idx) => J::obj(vec![
                    ("dc", J::Str(name.map(|n| n.as_str().to_string()).unwrap_or_default())),
                    ("v", J::Int(idx.as_usize() as i128)),
                ]),
                other => J::obj(vec![("txt", J::Str(format!("{:?}", other)))]),
            };
            proj.push(j);
            ty = ty.projection_ty(self.tcx, elem);
        }
        J::obj(vec![("l", J::Int(p.local.as_usize() as i128)), ("p", J::Arr(proj))])
    }

    fn constant(&self, c: &ConstOperand<'tcx>) -> J {
        let ty = c.const_.ty();
        let mut o = vec![("k", J::s("const")), ("ty", J::Str(format!("{}", ty)))];
        match ty.kind() {
            ty::FnDef(did, args) => {
                o.push(("fn", J::Str(self.tcx.def_path_str(*did))));
                if let Ok(Some(inst)) = Instance::try_resolve(self.tcx, self.env, *did, args) {
                    o.push(("fn_res", J::Str(self.tcx.def_path_str(inst.def_id()))));
                }
            }
            _ => {
                if let Some(si) = c.const_.try_eval_scalar_int(self.tcx, self.env) {
                    o.push(("val", scalar_to_json(si, ty)));
                } else {
                    // string literals and other by-ref constants
                    let mut done = false;
                    if let Ok(cv) = c.const_.eval(self.tcx, self.env, c.span) {
                        if let ty::Ref(_, inner, _) = ty.kind() {
                            if inner.is_str() {
                                if let Some(bytes) = cv.try_get_slice_bytes_for_diagnostics(self.tcx) {
                                    o.push(("val", J::Str(format!("s:{}", String::from_utf8_lossy(bytes)))));
                                    done = true;
                                }
                            }
                        }
                    }
                    if !done {
                        o.push(("txt", J::Str(format!("{:?}", c.const_))));
                    }
                }
            }
        }
        J::obj(o)
    }

    fn operand(&self, op: &Operand<'tcx>) -> J {
        match op {
            Operand::Copy(p) => J::obj(vec![("k", J::s("copy")), ("pl", self.place(p))]),
            Operand::Move(p) => J::obj(vec![("k", J::s("move")), ("pl", self.place(p))]),
            Operand::Constant(c) => self.constant(c),
            other => J::obj(vec![("k", J::s("other")), ("txt", J::Str(format!("{:?}", other)))]),
        }
    }

    fn rvalue(&self, rv: &Rvalue<'tcx>) -> J {
        match rv {
            Rvalue::Use(op, ..) => J::obj(vec![("k", J::s("use")), ("a", self.operand(op))]),
            Rvalue::Repeat(op, n) => J::obj(vec![
                ("k", J::s("repeat")),
                ("a", self.operand(op)),
                ("n", J::Str(format!("{}", n))),
            ]),
            Rvalue::Ref(_, bk, p) => J::obj(vec![
                ("k", J::s("ref")),
                ("mut", J::Bool(matches!(bk, BorrowKind::Mut { .. }))),
                ("pl", self.place(p)),
            ]),
            Rvalue::RawPtr(_, p) => J::obj(vec![("k", J::s("rawptr")), ("pl", self.place(p))]),
            Rvalue::Cast(ck, op, ty) => {
                let ckn = match ck {
                    CastKind::IntToInt => "IntToInt".to_string(),
                    CastKind::FloatToInt => "FloatToInt".to_string(),
                    CastKind::IntToFloat => "IntToFloat".to_string(),
                    CastKind::FloatToFloat => "FloatToFloat".to_string(),
                    CastKind::PtrToPtr => "PtrToPtr".to_string(),
                    CastKind::Transmute => "Transmute".to_string(),
                    CastKind::PointerCoercion(pc, _) => format!("PointerCoercion({:?})", pc),
                    other => format!("{:?}", other),
                };
                J::obj(vec![
                    ("k", J::s("cast")),
                    ("ck", J::Str(ckn)),
                    ("a", self.operand(op)),
                    ("ty", J::Str(format!("{}", ty))),
                ])
            }
            Rvalue::BinaryOp(op, ab) => J::obj(vec![
                ("k", J::s("bin")),
                ("op", J::Str(format!("{:?}", op))),
                ("a", self.operand(&ab.0)),
                ("b", self.operand(&ab.1)),
            ]),
            Rvalue::UnaryOp(op, a) => J::obj(vec![
                ("k", J::s("un")),
                ("op", J::Str(format!("{:?}", op))),
                ("a", self.operand(a)),
            ]),
            Rvalue::Discriminant(p) => J::obj(vec![("k", J::s("discr")), ("pl", self.place(p))]),
            Rvalue::Aggregate(ak, ops) => {
                let akn = match &**ak {
                    AggregateKind::Array(_) => "array".to_string(),
                    AggregateKind::Tuple => "tuple".to_string(),
                    AggregateKind::Adt(did, vidx, _, _, _) => {
                        let adt = self.tcx.adt_def(*did);
                        let v = adt.variant(*vidx);
                        if adt.is_enum() {
                            format!("adt:{}::{}", self.tcx.def_path_str(*did), v.name.as_str())
                        } else {
                            format!("adt:{}", self.tcx.def_path_str(*did))
                        }
                    }
                    AggregateKind::Closure(did, _) => format!("closure:{}", self.tcx.def_path_str(*did)),
                    other => format!("{:?}", other),
                };
                let mut fields = Vec::new();
                if let AggregateKind::Adt(did, vidx, _, _, _) = &**ak {
                    let adt = self.tcx.adt_def(*did);
                    for f in adt.variant(*vidx).fields.iter() {
                        fields.push(J::s(f.name.as_str()));
                    }
                }
                J::obj(vec![
                    ("k", J::s("agg")),
                    ("ak", J::Str(akn)),
                    ("fields", J::Arr(fields)),
                    ("ops", J::Arr(ops.iter().map(|o| self.operand(o)).collect())),
                ])
            }
            Rvalue::CopyForDeref(p) => J::obj(vec![("k", J::s("use")), ("a", J::obj(vec![("k", J::s("copy")), ("pl", self.place(p))]))]),
            other => J::obj(vec![("k", J::s("other")), ("txt", J::Str(format!("{:?}", other)))]),
        }
    }

    fn src(&self, si: &SourceInfo, o: &mut Vec<(&'static str, J)>) {
        let (_, lo, _, exp, mac) = span_info(self.tcx, si.span);
        o.push(("line", J::Int(lo as i128)));
        if exp {
            o.push(("exp", J::Bool(true)));
            o.push(("mac", J::Str(mac)));
        }
    }

    fn terminator(&self, t: &Terminator<'tcx>) -> J {
        let bb = |b: BasicBlock| J::Int(b.as_usize() as i128);
        let obb = |b: Option<BasicBlock>| b.map(|b| J::Int(b.as_usize() as i128)).unwrap_or(J::Null);
        let unwind_bb = |u: &UnwindAction| match u {
            UnwindAction::Cleanup(b) => J::Int(b.as_usize() as i128),
            _ => J::Null,
        };
        let mut o: Vec<(&'static str, J)> = Vec::new();
        match &t.kind {
            TerminatorKind::Goto { target } => {
                o.push(("k", J::s("goto")));
                o.push(("t", bb(*target)));
            }
            TerminatorKind::SwitchInt { discr, targets } => {
                o.push(("k", J::s("switch")));
                o.push(("d", self.operand(discr)));
                let dty = discr.ty(self.body, self.tcx);
                o.push(("dty", J::Str(format!("{}", dty))));
                let mut vals = Vec::new();
                let mut ts = Vec::new();
                for (v, b) in targets.iter() {
                    vals.push(if v <= i128::MAX as u128 { J::Int(v as i128) } else { J::Str(v.to_string()) });
                    ts.push(bb(b));
                }
                o.push(("vals", J::Arr(vals)));
                o.push(("ts", J::Arr(ts)));
                o.push(("otherwise", bb(targets.otherwise())));
            }
            TerminatorKind::Return => o.push(("k", J::s("return"))),
            TerminatorKind::Unreachable => o.push(("k", J::s("unreachable"))),
            TerminatorKind::UnwindResume => o.push(("k", J::s("resume"))),
            TerminatorKind::UnwindTerminate(_) => o.push(("k", J::s("terminate"))),
            TerminatorKind::Drop { place, target, unwind, .. } => {
                o.push(("k", J::s("drop")));
                o.push(("pl", self.place(place)));
                o.push(("t", bb(*target)));
                o.push(("unwind", unwind_bb(unwind)));
            }
            TerminatorKind::Call { func, args, destination, target, unwind, .. } => {
                o.push(("k", J::s("call")));
                let fty = func.ty(self.body, self.tcx);
                match fty.kind() {
                    ty::FnDef(did, gargs) => {
                        o.push(("decl", J::Str(self.tcx.def_path_str(*did))));
                        match Instance::try_resolve(self.tcx, self.env, *did, gargs) {
                            Ok(Some(inst)) => {
                                o.push(("callee", J::Str(self.tcx.def_path_str(inst.def_id()))));
                                o.push((
                                    "callee_inst",
                                    J::Str(self.tcx.def_path_str_with_args(inst.def_id(), inst.args)),
                                ));
                                o.push(("local", J::Bool(inst.def_id().is_local())));
                                let kind = match inst.def {
                                    ty::InstanceKind::Item(_) => "item",
                                    ty::InstanceKind::Intrinsic(_) => "intrinsic",
                                    ty::InstanceKind::Virtual(..) => "virtual",
                                    ty::InstanceKind::ClosureOnceShim { .. } => "closure_once_shim",
                                    ty::InstanceKind::FnPtrShim(..) => "fnptr_shim",
                                    ty::InstanceKind::DropGlue(..) => "drop_glue",
                                    ty::InstanceKind::CloneShim(..) => "clone_shim",
                                    _ => "other",
                                };
                                o.push(("ikind", J::s(kind)));
                            }
                            _ => {
                                o.push(("callee", J::Null));
                            }
                        }
                        o.push(("targs", J::Arr(gargs.iter().map(|a| J::Str(format!("{}", a))).collect())));
                    }
                    _ => {
                        // indirect call through a fn pointer / dyn Fn
                        o.push(("callee", J::Null));
                        o.push(("fnptr", self.operand(func)));
                        o.push(("fnty", J::Str(format!("{}", fty))));
                    }
                }
                o.push(("args", J::Arr(args.iter().map(|a| self.operand(&a.node)).collect())));
                o.push(("dest", self.place(destination)));
                o.push(("t", obb(*target)));
                o.push(("unwind", unwind_bb(unwind)));
            }
            TerminatorKind::Assert { cond, expected, msg, target, unwind } => {
                o.push(("k", J::s("assert")));
                o.push(("cond", self.operand(cond)));
                o.push(("expected", J::Bool(*expected)));
                let m = match &**msg {
                    AssertKind::BoundsCheck { len, index } => J::obj(vec![
                        ("k", J::s("BoundsCheck")),
                        ("len", self.operand(len)),
                        ("index", self.operand(index)),
                    ]),
                    AssertKind::Overflow(op, a, b) => J::obj(vec![
                        ("k", J::s("Overflow")),
                        ("op", J::Str(format!("{:?}", op))),
                        ("a", self.operand(a)),
                        ("b", self.operand(b)),
                    ]),
                    AssertKind::OverflowNeg(a) => J::obj(vec![("k", J::s("OverflowNeg")), ("a", self.operand(a))]),
                    AssertKind::DivisionByZero(a) => J::obj(vec![("k", J::s("DivisionByZero")), ("a", self.operand(a))]),
                    AssertKind::RemainderByZero(a) => J::obj(vec![("k", J::s("RemainderByZero")), ("a", self.operand(a))]),
                    AssertKind::MisalignedPointerDereference { .. } => J::obj(vec![("k", J::s("Misaligned"))]),
                    AssertKind::NullPointerDereference => J::obj(vec![("k", J::s("NullDeref"))]),
                    other => J::obj(vec![("k", J::s("Other")), ("txt", J::Str(format!("{:?}", other)))]),
                };
                o.push(("msg", m));
                o.push(("t", bb(*target)));
                o.push(("unwind", unwind_bb(unwind)));
            }
            TerminatorKind::FalseEdge { real_target, .. } => {
                o.push(("k", J::s("goto")));
                o.push(("t", bb(*real_target)));
            }
            TerminatorKind::FalseUnwind { real_target, .. } => {
                o.push(("k", J::s("goto")));
                o.push(("t", bb(*real_target)));
            }
            other => {
                o.push(("k", J::s("other")));
                o.push(("txt", J::Str(format!("{:?}", other))));
            }
        }
        self.src(&t.source_info, &mut o);
        J::obj(o)
    }
}

pub fn dump_mir<'tcx>(tcx: TyCtxt<'tcx>, ldid: LocalDefId) -> J {
    let did = ldid.to_def_id();
    let body: &Body<'tcx> = tcx.optimized_mir(did);
    let env = TypingEnv::post_analysis(tcx, did);
    let cx = Cx { tcx, body, env };

    // locals: type + user name
    let mut names: Vec<Option<String>> = vec![None; body.local_decls.len()];
    let mut dbg = Vec::new();
    for v in &body.var_debug_info {
        if let VarDebugInfoContents::Place(p) = &v.value {
            if p.projection.is_empty() {
                names[p.local.as_usize()] = Some(v.name.as_str().to_string());
            }
            dbg.push(J::obj(vec![("name", J::s(v.name.as_str())), ("pl", cx.place(p))]));
        }
    }
    let mut locals = Vec::new();
    for (l, d) in body.local_decls.iter_enumerated() {
        let mut o = vec![("ty", J::Str(format!("{}", d.ty)))];
        if let Some(n) = &names[l.as_usize()] {
            o.push(("name", J::Str(n.clone())));
        }
        locals.push(J::obj(o));
    }

    let mut blocks = Vec::new();
    for (_bb, data) in body.basic_blocks.iter_enumerated() {
        let mut stmts = Vec::new();
        for s in &data.statements {
            match &s.kind {
                StatementKind::Assign(b) => {
                    let (pl, rv) = &**b;
                    let mut o = vec![("k", J::s("assign")), ("lhs", cx.place(pl)), ("rv", cx.rvalue(rv))];
                    cx.src(&s.source_info, &mut o);
                    stmts.push(J::obj(o));
                }
                StatementKind::SetDiscriminant { place, variant_index } => {
                    let mut o = vec![
                        ("k", J::s("setdiscr")),
                        ("lhs", cx.place(place)),
                        ("v", J::Int(variant_index.as_usize() as i128)),
                    ];
                    cx.src(&s.source_info, &mut o);
                    stmts.push(J::obj(o));
                }
                StatementKind::StorageLive(_)
                | StatementKind::StorageDead(_)
                | StatementKind::FakeRead(_)
                | StatementKind::PlaceMention(_)
                | StatementKind::AscribeUserType(..)
                | StatementKind::Coverage(..)
                | StatementKind::ConstEvalCounter
                | StatementKind::Nop => {}
                other => {
                    let mut o = vec![("k", J::s("other")), ("txt", J::Str(format!("{:?}", other)))];
                    cx.src(&s.source_info, &mut o);
                    stmts.push(J::obj(o));
                }
            }
        }
        blocks.push(J::obj(vec![
            ("cleanup", J::Bool(data.is_cleanup)),
            ("stmts", J::Arr(stmts)),
            ("term", cx.terminator(data.terminator())),
        ]));
    }

    J::obj(vec![
        ("arg_count", J::Int(body.arg_count as i128)),
        ("locals", J::Arr(locals)),
        ("dbg", J::Arr(dbg)),
        ("blocks", J::Arr(blocks)),
    ])
}
