// p2facts: fact extractor for the p2sh static-analysis harness (engine E0).
//
// Used as RUSTC_WORKSPACE_WRAPPER under `cargo +nightly check`.  For the crate
// named by $P2FACTS_CRATE (default "p2sh") it dumps, after analysis, one JSON
// file ($P2FACTS_OUT) containing the type-checked program: ADTs, constants,
// impls, and for every body its MIR (resolved callees, evaluated constants)
// and its HIR expression tree (typeck-resolved paths and callees).
// Nothing of the analysed crate is executed.
#![feature(rustc_private)]
#![allow(clippy::all)]

extern crate rustc_abi;
extern crate rustc_ast;
extern crate rustc_driver;
extern crate rustc_hir;
extern crate rustc_interface;
extern crate rustc_middle;
extern crate rustc_session;
extern crate rustc_span;

mod hirdump;
mod json;
mod mirdump;

use json::J;
use rustc_driver::Compilation;
use rustc_hir::def::DefKind;
use rustc_middle::ty::print::with_no_trimmed_paths;
use rustc_middle::ty::TyCtxt;

struct Cb {
    out: String,
}

impl rustc_driver::Callbacks for Cb {
    fn after_analysis<'tcx>(
        &mut self,
        _c: &rustc_interface::interface::Compiler,
        tcx: TyCtxt<'tcx>,
    ) -> Compilation {
        let facts = with_no_trimmed_paths!(collect(tcx));
        let mut s = String::with_capacity(32 << 20);
        facts.write(&mut s);
        s.push('\n');
        let tmp = format!("{}.tmp.{}", self.out, std::process::id());
        std::fs::write(&tmp, s).expect("p2facts: cannot write facts");
        std::fs::rename(&tmp, &self.out).expect("p2facts: cannot rename facts");
        Compilation::Continue
    }
}

pub fn span_info<'tcx>(tcx: TyCtxt<'tcx>, sp: rustc_span::Span) -> (String, usize, usize, bool, String) {
    let sm = tcx.sess.source_map();
    let exp = sp.from_expansion();
    let mac = if exp {
        let d = sp.ctxt().outer_expn_data();
        // outermost user-visible macro in the expansion chain
        let mut name = d.kind.descr();
        let mut cur = d.call_site;
        while cur.from_expansion() {
            let dd = cur.ctxt().outer_expn_data();
            name = dd.kind.descr();
            cur = dd.call_site;
        }
        name
    } else {
        String::new()
    };
    // map to the root call site so that lines refer to user source
    let root = sp.source_callsite();
    let lo = sm.lookup_char_pos(root.lo());
    let hi = sm.lookup_char_pos(root.hi());
    let file = match &lo.file.name {
        rustc_span::FileName::Real(r) => match r.local_path() {
            Some(p) => p.to_string_lossy().to_string(),
            None => format!("{:?}", r),
        },
        other => format!("{:?}", other),
    };
    (file, lo.line, hi.line, exp, mac)
}

fn collect<'tcx>(tcx: TyCtxt<'tcx>) -> J {
    let mut adts = Vec::new();
    let mut consts = Vec::new();
    let mut impls = Vec::new();
    let mut fns = Vec::new();

    let items = tcx.hir_crate_items(());
    for ldid in items.definitions() {
        let did = ldid.to_def_id();
        let kind = tcx.def_kind(did);
        match kind {
            DefKind::Enum | DefKind::Struct => {
                let adt = tcx.adt_def(did);
                let mut variants = Vec::new();
                for (vidx, v) in adt.variants().iter_enumerated() {
                    let discr = if adt.is_enum() {
                        J::Int(adt.discriminant_for_variant(tcx, vidx).val as i128)
                    } else {
                        J::Null
                    };
                    let mut fields = Vec::new();
                    for f in v.fields.iter() {
                        let ty = tcx.type_of(f.did).instantiate_identity().skip_norm_wip();
                        fields.push(J::obj(vec![
                            ("name", J::s(f.name.as_str())),
                            ("ty", J::s(&format!("{}", ty))),
                        ]));
                    }
                    variants.push(J::obj(vec![
                        ("name", J::s(v.name.as_str())),
                        ("discr", discr),
                        ("fields", J::Arr(fields)),
                    ]));
                }
                let (file, lo, hi, _, _) = span_info(tcx, tcx.def_span(did));
                adts.push(J::obj(vec![
                    ("path", J::s(&tcx.def_path_str(did))),
                    ("kind", J::s(if adt.is_enum() { "enum" } else { "struct" })),
                    ("file", J::s(&file)),
                    ("line", J::Int(lo as i128)),
                    ("line_hi", J::Int(hi as i128)),
                    ("variants", J::Arr(variants)),
                ]));
            }
            DefKind::Const { .. } | DefKind::AssocConst { .. } => {
                let ty = tcx.type_of(did).instantiate_identity().skip_norm_wip();
                let mut val = J::Null;
                if tcx.generics_of(did).count() == 0 {
                    if let Ok(cv) = tcx.const_eval_poly(did) {
                        if let Some(si) = cv.try_to_scalar_int() {
                            val = mirdump::scalar_to_json(si, ty);
                        }
                    }
                }
                let mut o = vec![
                    ("path", J::s(&tcx.def_path_str(did))),
                    ("ty", J::s(&format!("{}", ty))),
                    ("val", val),
                ];
                if tcx.hir_maybe_body_owned_by(ldid).is_some() {
                    o.push(("hir", hirdump::dump_hir(tcx, ldid)));
                }
                consts.push(J::obj(o));
            }
            DefKind::Impl { .. } => {
                let self_ty = tcx.type_of(did).instantiate_identity().skip_norm_wip();
                let tr = tcx.impl_opt_trait_ref(did).map(|t| {
                    let t = t.instantiate_identity().skip_norm_wip();
                    (tcx.def_path_str(t.def_id), format!("{}", t))
                });
                let mut its = Vec::new();
                for &i in tcx.associated_item_def_ids(did) {
                    its.push(J::s(&tcx.def_path_str(i)));
                }
                impls.push(J::obj(vec![
                    ("self_ty", J::s(&format!("{}", self_ty))),
                    ("trait", tr.as_ref().map(|t| J::s(&t.0)).unwrap_or(J::Null)),
                    ("trait_ref", tr.as_ref().map(|t| J::s(&t.1)).unwrap_or(J::Null)),
                    ("items", J::Arr(its)),
                ]));
            }
            _ => {}
        }
    }

    for ldid in tcx.hir_body_owners() {
        let did = ldid.to_def_id();
        let kind = tcx.def_kind(did);
        let kname = match kind {
            DefKind::Fn => "Fn",
            DefKind::AssocFn => "AssocFn",
            DefKind::Closure => "Closure",
            _ => continue,
        };
        let (file, lo, hi, exp, mac) = span_info(tcx, tcx.def_span(did));
        let body_span = tcx.hir_body_owned_by(ldid).value.span;
        let (_, blo, bhi, _, _) = span_info(tcx, body_span);
        let vis = match kind {
            DefKind::Fn | DefKind::AssocFn => {
                if tcx.visibility(did).is_public() { "pub" } else { "restricted" }
            }
            _ => "closure",
        };
        let mut o = vec![
            ("path", J::s(&tcx.def_path_str(did))),
            ("kind", J::s(kname)),
            ("file", J::s(&file)),
            ("line", J::Int(lo.min(blo) as i128)),
            ("line_hi", J::Int(hi.max(bhi) as i128)),
            ("exp", J::Bool(exp)),
            ("mac", J::s(&mac)),
            ("vis", J::s(vis)),
        ];
        // parent item (impl / trait / module) for grouping
        let parent = tcx.parent(did);
        o.push(("parent", J::s(&tcx.def_path_str(parent))));
        if matches!(tcx.def_kind(parent), DefKind::Impl { .. }) {
            let self_ty = tcx.type_of(parent).instantiate_identity().skip_norm_wip();
            o.push(("impl_self", J::s(&format!("{}", self_ty))));
            if let Some(t) = tcx.impl_opt_trait_ref(parent) {
                let t = t.instantiate_identity().skip_norm_wip();
                o.push(("impl_trait", J::s(&tcx.def_path_str(t.def_id))));
            }
        }
        o.push(("mir", mirdump::dump_mir(tcx, ldid)));
        if !matches!(kind, DefKind::Closure) {
            o.push(("hir", hirdump::dump_hir(tcx, ldid)));
        }
        fns.push(J::obj(o));
    }

    J::obj(vec![
        ("crate", J::s(tcx.crate_name(rustc_span::def_id::LOCAL_CRATE).as_str())),
        ("overflow_checks", J::Bool(tcx.sess.overflow_checks())),
        ("adts", J::Arr(adts)),
        ("consts", J::Arr(consts)),
        ("impls", J::Arr(impls)),
        ("fns", J::Arr(fns)),
    ])
}

fn main() {
    let mut args: Vec<String> = std::env::args().collect();
    // wrapper protocol: argv[1] is the real rustc
    if args.len() > 1 {
        args.remove(1);
    }
    let want = std::env::var("P2FACTS_CRATE").unwrap_or_else(|_| "p2sh".to_string());
    let mut is_target = false;
    let mut i = 0;
    while i + 1 < args.len() {
        if args[i] == "--crate-name" && args[i + 1] == want {
            is_target = true;
        }
        i += 1;
    }
    // build scripts / proc-macro probes (`rustc -vV`, `--print`) pass through
    let out = std::env::var("P2FACTS_OUT").ok();
    if is_target && out.is_some() {
        let mut cb = Cb { out: out.unwrap() };
        rustc_driver::run_compiler(&args, &mut cb);
    } else {
        struct Nop;
        impl rustc_driver::Callbacks for Nop {}
        rustc_driver::run_compiler(&args, &mut Nop);
    }
}
