// Minimal JSON value + writer (no dependencies).
pub enum J {
    Null,
    Bool(bool),
    Int(i128),
    Str(String),
    Arr(Vec<J>),
    Obj(Vec<(&'static str, J)>),
}

impl J {
    pub fn s(x: &str) -> J {
        J::Str(x.to_string())
    }
    pub fn obj(v: Vec<(&'static str, J)>) -> J {
        J::Obj(v)
    }
    pub fn write(&self, out: &mut String) {
        match self {
            J::Null => out.push_str("null"),
            J::Bool(b) => out.push_str(if *b { "true" } else { "false" }),
            J::Int(i) => out.push_str(&i.to_string()),
            J::Str(s) => write_str(s, out),
            J::Arr(v) => {
                out.push('[');
                for (i, x) in v.iter().enumerate() {
                    if i > 0 {
                        out.push(',');
                    }
                    x.write(out);
                }
                out.push(']');
            }
            J::Obj(v) => {
                out.push('{');
                for (i, (k, x)) in v.iter().enumerate() {
                    if i > 0 {
                        out.push(',');
                    }
                    write_str(k, out);
                    out.push(':');
                    x.write(out);
                }
                out.push('}');
            }
        }
    }
}

fn write_str(s: &str, out: &mut String) {
    out.push('"');
    for c in s.chars() {
        match c {
            '"' => out.push_str("\\\""),
            '\\' => out.push_str("\\\\"),
            '\n' => out.push_str("\\n"),
            '\r' => out.push_str("\\r"),
            '\t' => out.push_str("\\t"),
            c if (c as u32) < 0x20 => out.push_str(&format!("\\u{:04x}", c as u32)),
            c => out.push(c),
        }
    }
    out.push('"');
}
