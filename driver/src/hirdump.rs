// HIR expression trees → JSON with typeck-resolved paths and callees.
use crate::json::J;
use crate::span_info;
use rustc_ast::LitKind;
use rustc_hir as hir;
use rustc_hir::def::{DefKind, Res};
use rustc_hir::def_id::LocalDefId;
use rustc_middle::ty::{self, Instance, TyCtxt, TypeckResults, TypingEnv};

struct Hx<'tcx> {
    tcx: TyCtxt<'tcx>,
    tr: &'tcx TypeckResults<'tcx>,
    env: TypingEnv<'tcx>,
}

impl<'tcx> Hx<'tcx> {
    fn res(&self, r: Res) -> J {
        match r {
            Res::Local(hid) => J::obj(vec![
                ("r", J::s("local")),
                ("name", J::s(self.tcx.hir_name(hid).as_str())),
                ("id", J::Str(format!("{}.{}", hid.owner.def_id.local_def_index.as_u32(), hid.local_id.as_u32()))),
            ]),
            Res::Def(kind, did) => {
                let (k, path) = match kind {
                    DefKind::Ctor(..) => ("ctor", self.tcx.def_path_str(self.tcx.parent(did))),
                    DefKind::Variant => ("variant", self.tcx.def_path_str(did)),
                    DefKind::Fn => ("fn", self.tcx.def_path_str(did)),
                    DefKind::AssocFn => ("fn", self.tcx.def_path_str(did)),
                    DefKind::Const { .. } => ("const", self.tcx.def_path_str(did)),
                    DefKind::AssocConst { .. } => ("const", self.tcx.def_path_str(did)),
                    DefKind::Static { .. } => ("static", self.tcx.def_path_str(did)),
                    DefKind::Struct => ("struct", self.tcx.def_path_str(did)),
                    _ => ("def", self.tcx.def_path_str(did)),
                };
                let mut o = vec![("r", J::s(k)), ("path", J::Str(path))];
                if matches!(kind, DefKind::Const { .. } | DefKind::AssocConst { .. }) && self.tcx.generics_of(did).count() == 0 {
                    if let Ok(cv) = self.tcx.const_eval_poly(did) {
                        if let Some(si) = cv.try_to_scalar_int() {
                            let ty = self.tcx.type_of(did).instantiate_identity().skip_norm_wip();
                            o.push(("val", crate::mirdump::scalar_to_json(si, ty)));
                        }
                    }
                }
                J::obj(o)
            }
            Res::SelfCtor(did) | Res::SelfTyAlias { alias_to: did, .. } => {
                let ty = self.tcx.type_of(did).instantiate_identity().skip_norm_wip();
                J::obj(vec![("r", J::s("self")), ("path", J::Str(format!("{}", ty)))])
            }
            other => J::obj(vec![("r", J::s("other")), ("txt", J::Str(format!("{:?}", other)))]),
        }
    }

    fn resolve_fn(&self, did: rustc_hir::def_id::DefId, hid: hir::HirId, o: &mut Vec<(&'static str, J)>) {
        o.push(("decl", J::Str(self.tcx.def_path_str(did))));
        let args = self.tr.node_args(hid);
        let need = self.tcx.generics_of(did).count();
        if args.len() != need {
            o.push(("callee", J::Str(self.tcx.def_path_str(did))));
            return;
        }
        let args = self.tcx.erase_and_anonymize_regions(args);
        if let Ok(Some(inst)) = Instance::try_resolve(self.tcx, self.env, did, args) {
            o.push(("callee", J::Str(self.tcx.def_path_str(inst.def_id()))));
        } else {
            o.push(("callee", J::Str(self.tcx.def_path_str(did))));
        }
    }

    fn lit(&self, l: &hir::Lit, negated: bool) -> J {
        let (lk, v) = match &l.node {
            LitKind::Str(s, _) => ("str", J::Str(s.as_str().to_string())),
            LitKind::ByteStr(b, _) => ("bytestr", J::Str(String::from_utf8_lossy(b.as_byte_str()).to_string())),
            LitKind::CStr(..) => ("cstr", J::Null),
            LitKind::Byte(b) => ("byte", J::Int(*b as i128)),
            LitKind::Char(c) => ("char", J::Str(c.to_string())),
            LitKind::Int(n, _) => {
                let v = n.get();
                let v = if v <= i128::MAX as u128 { v as i128 } else { 0 };
                ("int", J::Int(if negated { -v } else { v }))
            }
            LitKind::Float(s, _) => ("float", J::Str(format!("{}{}", if negated { "-" } else { "" }, s.as_str()))),
            LitKind::Bool(b) => ("bool", J::Bool(*b)),
            LitKind::Err(_) => ("err", J::Null),
        };
        if let LitKind::ByteStr(b, _) = &l.node {
            // exact bytes (the lossy text above cannot represent format_args! templates)
            let hex: String = b.as_byte_str().iter().map(|x| format!("{:02x}", x)).collect();
            return J::obj(vec![("k", J::s("lit")), ("lk", J::s(lk)), ("v", v), ("hex", J::Str(hex))]);
        }
        J::obj(vec![("k", J::s("lit")), ("lk", J::s(lk)), ("v", v)])
    }

    fn pat(&self, p: &hir::Pat<'tcx>) -> J {
        let mut o: Vec<(&'static str, J)> = Vec::new();
        match &p.kind {
            hir::PatKind::Wild | hir::PatKind::Missing => o.push(("k", J::s("wild"))),
            hir::PatKind::Binding(mode, hid, ident, sub) => {
                o.push(("k", J::s("bind")));
                o.push(("name", J::s(ident.name.as_str())));
                o.push(("id", J::Str(format!("{}.{}", hid.owner.def_id.local_def_index.as_u32(), hid.local_id.as_u32()))));
                o.push(("mode", J::Str(format!("{:?}", mode))));
                if let Some(s) = sub {
                    o.push(("sub", self.pat(s)));
                }
            }
            hir::PatKind::Struct(qp, fields, _) => {
                o.push(("k", J::s("struct")));
                o.push(("res", self.res(self.tr.qpath_res(qp, p.hir_id))));
                let fs = fields
                    .iter()
                    .map(|f| J::obj(vec![("name", J::s(f.ident.name.as_str())), ("pat", self.pat(f.pat))]))
                    .collect();
                o.push(("fields", J::Arr(fs)));
            }
            hir::PatKind::TupleStruct(qp, pats, _) => {
                o.push(("k", J::s("ts")));
                o.push(("res", self.res(self.tr.qpath_res(qp, p.hir_id))));
                o.push(("pats", J::Arr(pats.iter().map(|x| self.pat(x)).collect())));
            }
            hir::PatKind::Or(pats) => {
                o.push(("k", J::s("or")));
                o.push(("pats", J::Arr(pats.iter().map(|x| self.pat(x)).collect())));
            }
            hir::PatKind::Tuple(pats, _) => {
                o.push(("k", J::s("tuple")));
                o.push(("pats", J::Arr(pats.iter().map(|x| self.pat(x)).collect())));
            }
            hir::PatKind::Box(x) | hir::PatKind::Deref(x) => {
                o.push(("k", J::s("deref")));
                o.push(("pat", self.pat(x)));
            }
            hir::PatKind::Ref(x, ..) => {
                o.push(("k", J::s("ref")));
                o.push(("pat", self.pat(x)));
            }
            hir::PatKind::Expr(pe) => self.pat_expr(pe, &mut o),
            hir::PatKind::Guard(x, g) => {
                o.push(("k", J::s("guard")));
                o.push(("pat", self.pat(x)));
                o.push(("cond", self.expr(g)));
            }
            hir::PatKind::Range(lo, hi, end) => {
                o.push(("k", J::s("range")));
                let f = |x: &Option<&hir::PatExpr<'tcx>>| match x {
                    Some(pe) => {
                        let mut oo = Vec::new();
                        self.pat_expr(pe, &mut oo);
                        J::obj(oo)
                    }
                    None => J::Null,
                };
                o.push(("lo", f(lo)));
                o.push(("hi", f(hi)));
                o.push(("end", J::Str(format!("{:?}", end))));
            }
            hir::PatKind::Slice(a, m, b) => {
                o.push(("k", J::s("slice")));
                o.push(("before", J::Arr(a.iter().map(|x| self.pat(x)).collect())));
                o.push(("mid", m.map(|x| self.pat(x)).unwrap_or(J::Null)));
                o.push(("after", J::Arr(b.iter().map(|x| self.pat(x)).collect())));
            }
            other => {
                o.push(("k", J::s("other")));
                o.push(("txt", J::Str(format!("{:?}", other))));
            }
        }
        J::obj(o)
    }

    fn pat_expr(&self, pe: &hir::PatExpr<'tcx>, o: &mut Vec<(&'static str, J)>) {
        match &pe.kind {
            hir::PatExprKind::Lit { lit, negated } => {
                o.push(("k", J::s("plit")));
                o.push(("lit", self.lit(lit, *negated)));
            }
            hir::PatExprKind::Path(qp) => {
                o.push(("k", J::s("ppath")));
                o.push(("res", self.res(self.tr.qpath_res(qp, pe.hir_id))));
            }
        }
    }

    fn block(&self, b: &hir::Block<'tcx>) -> J {
        let mut stmts = Vec::new();
        for s in b.stmts {
            match &s.kind {
                hir::StmtKind::Let(l) => {
                    let mut o = vec![("k", J::s("let")), ("pat", self.pat(l.pat))];
                    if let Some(i) = l.init {
                        o.push(("init", self.expr(i)));
                    }
                    if let Some(e) = l.els {
                        o.push(("els", self.block(e)));
                    }
                    let (_, lo, _, _, _) = span_info(self.tcx, s.span);
                    o.push(("line", J::Int(lo as i128)));
                    stmts.push(J::obj(o));
                }
                hir::StmtKind::Expr(e) => stmts.push(J::obj(vec![("k", J::s("expr")), ("e", self.expr(e))])),
                hir::StmtKind::Semi(e) => stmts.push(J::obj(vec![("k", J::s("semi")), ("e", self.expr(e))])),
                hir::StmtKind::Item(_) => {}
            }
        }
        let mut o = vec![("k", J::s("block")), ("stmts", J::Arr(stmts))];
        if let Some(e) = b.expr {
            o.push(("expr", self.expr(e)));
        }
        J::obj(o)
    }

    fn expr(&self, e: &hir::Expr<'tcx>) -> J {
        let mut o: Vec<(&'static str, J)> = Vec::new();
        match &e.kind {
            hir::ExprKind::DropTemps(x) | hir::ExprKind::Use(x, _) | hir::ExprKind::Type(x, _) => return self.expr(x),
            hir::ExprKind::Block(b, _) => return self.block(b),
            hir::ExprKind::Lit(l) => {
                let mut j = self.lit(l, false);
                if let J::Obj(v) = &mut j {
                    let (_, lo, _, exp, _) = span_info(self.tcx, e.span);
                    v.push(("line", J::Int(lo as i128)));
                    if exp {
                        v.push(("exp", J::Bool(true)));
                    }
                }
                return j;
            }
            hir::ExprKind::Array(xs) => {
                o.push(("k", J::s("array")));
                o.push(("es", J::Arr(xs.iter().map(|x| self.expr(x)).collect())));
            }
            hir::ExprKind::Tup(xs) => {
                o.push(("k", J::s("tup")));
                o.push(("es", J::Arr(xs.iter().map(|x| self.expr(x)).collect())));
            }
            hir::ExprKind::Repeat(x, n) => {
                o.push(("k", J::s("repeat")));
                o.push(("e", self.expr(x)));
                o.push(("n", J::Str(format!("{:?}", n.kind))));
            }
            hir::ExprKind::Call(f, args) => {
                o.push(("k", J::s("call")));
                if let hir::ExprKind::Path(qp) = &f.kind {
                    let r = self.tr.qpath_res(qp, f.hir_id);
                    match r {
                        Res::Def(DefKind::Fn | DefKind::AssocFn, did) => {
                            self.resolve_fn(did, f.hir_id, &mut o);
                        }
                        Res::Def(DefKind::Ctor(..), did) => {
                            o.push(("ctor", J::Str(self.tcx.def_path_str(self.tcx.parent(did)))));
                        }
                        Res::SelfCtor(did) => {
                            let ty = self.tcx.type_of(did).instantiate_identity().skip_norm_wip();
                            o.push(("ctor", J::Str(format!("{}", ty))));
                        }
                        _ => {}
                    }
                }
                o.push(("f", self.expr(f)));
                o.push(("args", J::Arr(args.iter().map(|x| self.expr(x)).collect())));
            }
            hir::ExprKind::MethodCall(seg, recv, args, _) => {
                o.push(("k", J::s("mcall")));
                o.push(("m", J::s(seg.ident.name.as_str())));
                if let Some(did) = self.tr.type_dependent_def_id(e.hir_id) {
                    self.resolve_fn(did, e.hir_id, &mut o);
                }
                o.push(("recv", self.expr(recv)));
                o.push(("recv_ty", J::Str(format!("{}", self.tr.expr_ty_adjusted(recv)))));
                o.push(("args", J::Arr(args.iter().map(|x| self.expr(x)).collect())));
            }
            hir::ExprKind::Binary(op, l, r) => {
                o.push(("k", J::s("bin")));
                o.push(("op", J::s(op.node.as_str())));
                if let Some(did) = self.tr.type_dependent_def_id(e.hir_id) {
                    self.resolve_fn(did, e.hir_id, &mut o);
                }
                o.push(("l", self.expr(l)));
                o.push(("r", self.expr(r)));
            }
            hir::ExprKind::Unary(op, x) => {
                o.push(("k", J::s("un")));
                o.push(("op", J::s(op.as_str())));
                if let Some(did) = self.tr.type_dependent_def_id(e.hir_id) {
                    self.resolve_fn(did, e.hir_id, &mut o);
                }
                o.push(("e", self.expr(x)));
            }
            hir::ExprKind::Cast(x, _) => {
                o.push(("k", J::s("cast")));
                o.push(("e", self.expr(x)));
            }
            hir::ExprKind::Let(l) => {
                o.push(("k", J::s("let")));
                o.push(("pat", self.pat(l.pat)));
                o.push(("init", self.expr(l.init)));
            }
            hir::ExprKind::If(c, t, el) => {
                o.push(("k", J::s("if")));
                o.push(("c", self.expr(c)));
                o.push(("t", self.expr(t)));
                if let Some(x) = el {
                    o.push(("e", self.expr(x)));
                }
            }
            hir::ExprKind::Loop(b, _, src, _) => {
                o.push(("k", J::s("loop")));
                o.push(("src", J::Str(format!("{:?}", src))));
                o.push(("body", self.block(b)));
            }
            hir::ExprKind::Match(scrut, arms, src) => {
                o.push(("k", J::s("match")));
                o.push(("src", J::Str(format!("{:?}", src).split('(').next().unwrap_or("").to_string())));
                o.push(("scrut", self.expr(scrut)));
                let mut as_ = Vec::new();
                for a in arms.iter() {
                    let mut ao = vec![("pat", self.pat(a.pat))];
                    if let Some(g) = a.guard {
                        ao.push(("guard", self.expr(g)));
                    }
                    ao.push(("body", self.expr(a.body)));
                    let (_, lo, _, _, _) = span_info(self.tcx, a.span);
                    ao.push(("line", J::Int(lo as i128)));
                    as_.push(J::obj(ao));
                }
                o.push(("arms", J::Arr(as_)));
            }
            hir::ExprKind::Closure(c) => {
                o.push(("k", J::s("closure")));
                o.push(("def", J::Str(self.tcx.def_path_str(c.def_id.to_def_id()))));
                let body = self.tcx.hir_body(c.body);
                o.push(("params", J::Arr(body.params.iter().map(|p| self.pat(p.pat)).collect())));
                o.push(("body", self.expr(body.value)));
            }
            hir::ExprKind::Assign(l, r, _) => {
                o.push(("k", J::s("assign")));
                o.push(("l", self.expr(l)));
                o.push(("r", self.expr(r)));
            }
            hir::ExprKind::AssignOp(op, l, r) => {
                o.push(("k", J::s("assignop")));
                o.push(("op", J::s(op.node.as_str())));
                if let Some(did) = self.tr.type_dependent_def_id(e.hir_id) {
                    self.resolve_fn(did, e.hir_id, &mut o);
                }
                o.push(("l", self.expr(l)));
                o.push(("r", self.expr(r)));
            }
            hir::ExprKind::Field(x, id) => {
                o.push(("k", J::s("field")));
                o.push(("name", J::s(id.name.as_str())));
                o.push(("e", self.expr(x)));
                o.push(("base_ty", J::Str(format!("{}", self.tr.expr_ty_adjusted(x)))));
            }
            hir::ExprKind::Index(x, i, _) => {
                o.push(("k", J::s("index")));
                if let Some(did) = self.tr.type_dependent_def_id(e.hir_id) {
                    self.resolve_fn(did, e.hir_id, &mut o);
                }
                o.push(("e", self.expr(x)));
                o.push(("i", self.expr(i)));
                o.push(("base_ty", J::Str(format!("{}", self.tr.expr_ty_adjusted(x)))));
            }
            hir::ExprKind::Path(qp) => {
                o.push(("k", J::s("path")));
                o.push(("res", self.res(self.tr.qpath_res(qp, e.hir_id))));
            }
            hir::ExprKind::AddrOf(_, m, x) => {
                o.push(("k", J::s("ref")));
                o.push(("mut", J::Bool(m.is_mut())));
                o.push(("e", self.expr(x)));
            }
            hir::ExprKind::Break(dest, x) => {
                o.push(("k", J::s("break")));
                o.push(("label", J::Str(dest.label.map(|l| l.ident.name.as_str().to_string()).unwrap_or_default())));
                if let Some(x) = x {
                    o.push(("e", self.expr(x)));
                }
            }
            hir::ExprKind::Continue(dest) => {
                o.push(("k", J::s("continue")));
                o.push(("label", J::Str(dest.label.map(|l| l.ident.name.as_str().to_string()).unwrap_or_default())));
            }
            hir::ExprKind::Ret(x) => {
                o.push(("k", J::s("ret")));
                if let Some(x) = x {
                    o.push(("e", self.expr(x)));
                }
            }
            hir::ExprKind::Struct(qp, fields, tail) => {
                o.push(("k", J::s("struct")));
                o.push(("res", self.res(self.tr.qpath_res(qp, e.hir_id))));
                let fs = fields
                    .iter()
                    .map(|f| J::obj(vec![("name", J::s(f.ident.name.as_str())), ("e", self.expr(f.expr))]))
                    .collect();
                o.push(("fields", J::Arr(fs)));
                if let hir::StructTailExpr::Base(b) = tail {
                    o.push(("base", self.expr(b)));
                }
            }
            other => {
                o.push(("k", J::s("other")));
                o.push(("txt", J::Str(format!("{:?}", other).chars().take(200).collect())));
            }
        }
        if let Some(t) = self.tr.expr_ty_opt(e) {
            o.push(("ty", J::Str(format!("{}", t))));
        }
        let (_, lo, _, exp, mac) = span_info(self.tcx, e.span);
        o.push(("line", J::Int(lo as i128)));
        if exp {
            o.push(("exp", J::Bool(true)));
            o.push(("mac", J::Str(mac)));
        }
        J::obj(o)
    }
}

pub fn dump_hir<'tcx>(tcx: TyCtxt<'tcx>, ldid: LocalDefId) -> J {
    let body = tcx.hir_body_owned_by(ldid);
    let tr = tcx.typeck(ldid);
    let env = TypingEnv::post_analysis(tcx, ldid.to_def_id());
    let hx = Hx { tcx, tr, env };
    let params = body.params.iter().map(|p| hx.pat(p.pat)).collect();
    J::obj(vec![("params", J::Arr(params)), ("body", hx.expr(body.value))])
}
