"""Probes for C14's "no operand is truncated silently": variants of operands_fit / check_operands / emit in which some operand
can reach make() without having been tested against the maximum of its own width.  Every variant must be reported by C14.
Run: python3 tests/c14_range_probes.py"""
import importlib, os, shutil, sys
sys.path.insert(0, os.path.dirname(os.path.dirname(os.path.abspath(__file__))))
sys.setrecursionlimit(10000)
from rules.lib import mutants, facts as FM, core

D = "src/code/definitions.rs"
C = "src/compiler/mod.rs"
VARIANTS = {
    "limits_swapped": (D, "2 => operand <= u16::MAX as usize,\n                1 => operand <= u8::MAX as usize,", "2 => operand <= u8::MAX as usize,\n                1 => operand <= u16::MAX as usize,"),
    "first_operand_only": (D, "Some(def) => operands\n            .iter()\n            .zip(def.operand_widths)", "Some(def) => operands\n            .iter()\n            .take(1)\n            .zip(def.operand_widths)"),
    "off_by_one": (D, "2 => operand <= u16::MAX as usize,", "2 => operand <= 65536,"),
    # (not a probe: `_ => true` for widths other than 1 and 2 changes nothing, every DEFINITIONS entry has widths in {1, 2} —
    # C14's definitions-entry rule)
    "any_instead_of_all": (D, ".all(|(&operand, &width)| match width {\n                2 => operand <= u16::MAX as usize,", ".any(|(&operand, &width)| match width {\n                2 => operand <= u16::MAX as usize,"),
    "check_after_make": (C, "        self.check_operands(op, operands, line);\n        let ins = definitions::make(op, operands, line);", "        let ins = definitions::make(op, operands, line);\n        self.check_operands(op, operands, line);"),
    "check_skipped_for_jumps": (C, "        self.check_operands(op, &[operand], line);\n", ""),
    "error_overwritten_not_kept": (C, "if self.operand_error.is_none() && !definitions::operands_fit(op, operands) {", "if !definitions::operands_fit(op, operands) && false {"),
}


def run():
    out = []
    for name, (rel, old, new) in VARIANTS.items():
        src = open(os.path.join(FM.repo_root(), rel)).read()
        if old not in src:
            out.append((name, None, "anchor text not found"))
            continue
        tree = mutants.scratch_copy(FM.repo_root())
        try:
            open(os.path.join(tree, rel), "w").write(src.replace(old, new, 1))
            try:
                bad = mutants.run_on("C14", tree)
            except Exception as e:
                out.append((name, None, "does not build: %s" % str(e)[:120]))
                continue
        finally:
            shutil.rmtree(tree, ignore_errors=True)
        out.append((name, len(bad), "; ".join("%s: %s" % (r_, d_[:60]) for r_, k_, d_ in bad[:2])))
    return out


if __name__ == "__main__":
    miss = 0
    for name, n, det in run():
        print("%-28s %s  %s" % (name, "reported" if n else ("SILENT" if n == 0 else "n/a"), det))
        miss += (n == 0)
    sys.exit(1 if miss else 0)
