"""Probes for the panic audit: functions appended to a scratch copy of the repository.  Every site of an `unsafe_*`
function must stay OPEN (a test whose subject is modified before the use proves nothing), every site of a `safe_*`
function must be discharged (the prover has not been made useless).  Run: python3 tests/audit_soundness_probes.py
(also run by `./check C08 --tier thorough`, reported as a note)."""
import os, shutil, sys
sys.path.insert(0, os.path.dirname(os.path.dirname(os.path.abspath(__file__))))
sys.setrecursionlimit(10000)

PROBES = '''
pub struct ZzS { sp: usize, stack: Vec<u8> }
impl ZzS {
    pub fn zz_unsafe_field(&mut self) -> u8 {
        if self.sp < self.stack.len() { self.sp += 5; return self.stack[self.sp]; }
        0
    }
    pub fn zz_unsafe_field_via_helper(&mut self) -> u8 {
        if self.sp < self.stack.len() { self.zz_bump(); return self.stack[self.sp]; }
        0
    }
    fn zz_bump(&mut self) { self.sp += 3; }
    pub fn zz_unsafe_container_shrunk(&mut self) -> u8 {
        if self.sp < self.stack.len() { self.stack.pop(); return self.stack[self.sp]; }
        0
    }
    pub fn zz_safe_field(&mut self) -> u8 {
        if self.sp < self.stack.len() { return self.stack[self.sp]; }
        0
    }
}
pub fn zz_unsafe_local(v: &Vec<u8>, mut i: usize) -> u8 {
    if i < v.len() { i += 5; return v[i]; }
    0
}
pub fn zz_unsafe_after_dec(v: &Vec<u8>, mut i: usize) -> u8 {
    if i > 0 { i -= 1; return v[i]; }
    0
}
pub fn zz_unsafe_unbounded_range(v: &Vec<u8>, n: usize) -> u8 {
    let mut s = 0u8;
    for i in 0..n { s = s.wrapping_add(v[i]); }
    s
}
pub fn zz_unsafe_popped(v: &mut Vec<u8>, i: usize) -> u8 {
    if i < v.len() { v.pop(); return v[i]; }
    0
}
pub fn zz_unsafe_named_len(v: &mut Vec<u8>) -> u8 {
    let n = v.len();
    if n > 0 { v.clear(); return v[n - 1]; }
    0
}
pub fn zz_unsafe_loop_pop(v: &mut Vec<u8>) -> u8 {
    let mut s = 0u8;
    for i in 0..v.len() { v.pop(); s = s.wrapping_add(v[i]); }
    s
}
pub fn zz_safe_loop(v: &Vec<u8>) -> u8 {
    let mut s = 0u8;
    for i in 0..v.len() { s = s.wrapping_add(v[i]); }
    s
}
pub fn zz_unsafe_enumerate_other(v: &Vec<u8>, w: &mut Vec<u8>) {
    if w.len() != v.len() { return; }
    for (i, x) in v.iter().enumerate() { w.pop(); w[i] = *x; }
}
pub fn zz_unsafe_refcell(c: &std::cell::RefCell<Vec<u8>>) -> u8 {
    let n = c.borrow().len();
    if n > 0 { c.borrow_mut().pop(); return c.borrow()[n - 1]; }
    0
}
pub fn zz_unsafe_refcell_guard(c: &std::cell::RefCell<Vec<u8>>, i: usize) -> u8 {
    if i < c.borrow().len() { c.borrow_mut().clear(); return c.borrow()[i]; }
    0
}
fn zz_expect_one(args: &Vec<u8>) -> Result<(), String> {
    if args.len() != 1 { return Err(String::new()); }
    Ok(())
}
pub fn zz_unsafe_after_helper(args: &mut Vec<u8>) -> Result<u8, String> {
    zz_expect_one(args)?;
    args.pop();
    Ok(args[0])
}
pub fn zz_safe_after_helper(args: &Vec<u8>) -> Result<u8, String> {
    zz_expect_one(args)?;
    Ok(args[0])
}
pub fn zz_unsafe_signed_cast(v: &Vec<u8>, n: i64) -> u8 {
    if n < v.len() as i64 { return v[n as usize]; }
    0
}
pub fn zz_unsafe_narrow_cast(v: &Vec<u8>, n: usize) -> u8 {
    if n < v.len() { return v[(n as u8) as usize + 250]; }
    0
}
pub fn zz_unsafe_or_guard(v: &Vec<u8>, i: usize, j: usize) -> u8 {
    if i < v.len() || j < v.len() { return v[i]; }
    0
}
pub fn zz_unsafe_wrong_vec(v: &Vec<u8>, w: &Vec<u8>, i: usize) -> u8 {
    if i < v.len() { return w[i]; }
    0
}
pub fn zz_unsafe_off_by_one(v: &Vec<u8>, i: usize) -> u8 {
    if i <= v.len() { return v[i]; }
    0
}
pub fn zz_unsafe_slice_end(v: &Vec<u8>, a: usize, b: usize) -> u8 {
    if a <= v.len() { return v[a..b].len() as u8; }
    0
}
pub fn zz_unsafe_old_copy(v: &Vec<u8>, mut i: usize) -> u8 {
    if i == 0 { return 0; }
    let old = i;
    i -= 1;
    if i < v.len() { return v[old]; }
    0
}
pub fn zz_unsafe_bound_moved(v: &[u8; 8], mut lo: usize) -> u8 {
    let mut s = 0u8;
    if lo > 4 { return 0; }
    for i in (lo + 2..8).rev() { lo += 3; s = s.wrapping_add(v[i - lo]); }
    s
}
pub fn zz_safe_bound_set_before(v: &[u8; 8], parts: &[u8]) -> u8 {
    let mut lo = 0;
    for p in parts { if *p == 0 { lo = 1; } }
    let shift = 2;
    let mut s = 0u8;
    for i in (lo + shift..8).rev() { s = s.wrapping_add(v[i - shift]); }
    s
}
pub struct ZzC { c: std::cell::RefCell<Vec<u8>> }
impl ZzC {
    fn zz_shrink(&self) { self.c.borrow_mut().clear(); }
    pub fn zz_unsafe_cell_via_helper(&self, i: usize) -> u8 {
        if i < self.c.borrow().len() { self.zz_shrink(); return self.c.borrow()[i]; }
        0
    }
    pub fn zz_safe_cell(&self, i: usize) -> u8 {
        if i < self.c.borrow().len() { return self.c.borrow()[i]; }
        0
    }
}
pub fn zz_unsafe_owned_vec(n: u8, i: usize) -> u8 {
    let mut v = vec![n, n, n];
    if i < v.len() { v.pop(); return v[i]; }
    0
}
pub fn zz_unsafe_owned_named_len(n: u8) -> u8 {
    let mut v = vec![n, n, n];
    let k = v.len();
    v.clear();
    if k > 0 { return v[k - 1]; }
    0
}
pub fn zz_safe_owned_vec(n: u8, i: usize) -> u8 {
    let v = vec![n, n, n];
    if i < v.len() { return v[i]; }
    0
}
pub fn zz_unsafe_owned_struct_field(n: u8) -> u8 {
    let mut s = ZzS { sp: 0, stack: vec![n, n] };
    if s.sp < s.stack.len() { s.sp += 5; return s.stack[s.sp]; }
    0
}
pub fn zz_unsafe_tuple_field(v: &Vec<u8>, i: usize) -> u8 {
    let mut t = (i, 0usize);
    if t.0 < v.len() { t.0 += 9; return v[t.0]; }
    0
}
pub fn zz_safe_guard(v: &Vec<u8>, i: usize) -> u8 {
    if i < v.len() { return v[i]; }
    0
}
pub fn zz_safe_enumerate(v: &Vec<u8>, w: &mut [u8; 4]) {
    if v.len() != 4 { return; }
    for (i, x) in v.iter().enumerate() { w[i] = *x; }
}
'''


def run_probes():
    """[(function, site, expected, verdict)]"""
    from rules.lib import mutants, facts as FM, panics as P
    tree = mutants.scratch_copy(FM.repo_root())
    try:
        with open(os.path.join(tree, "src/builtins/print.rs"), "a") as fh:
            fh.write(PROBES)
        F = FM.load("default", repo=tree)
    finally:
        shutil.rmtree(tree, ignore_errors=True)
    A = P.Audit(F)
    out = []
    for p in sorted(F.fns):
        nm = p.rsplit("::", 1)[-1]
        if not nm.startswith(("zz_unsafe", "zz_safe")):
            continue
        for s in A.sites_of(p):
            if not ("index" in s.key or "Bounds" in s.key):
                continue
            A.discharge(s)
            out.append((nm, s.key.split(" | ", 1)[1], "open" if nm.startswith("zz_unsafe") else "discharged", s.verdict))
    return out


if __name__ == "__main__":
    bad = 0
    for nm, site, want, got in run_probes():
        ok = (got == "open") == (want == "open")
        bad += not ok
        print("%-34s %-28s want %-10s got %-10s %s" % (nm, site, want, got, "" if ok else "<== UNEXPECTED"))
    sys.exit(1 if bad else 0)
