"""Probes for the panic audit: functions appended to a scratch copy of the repository; every index site listed must stay\nOPEN (each is unsafe: a test whose subject is modified before the use).  Run: python3 tests/audit_soundness_probes.py"""
import sys, subprocess, shutil
sys.path.insert(0,'/verif'); sys.setrecursionlimit(10000)
from rules.lib import mutants, facts as FM, panics as P
tree = mutants.scratch_copy(FM.repo_root())
add = '''
pub struct ZzS { sp: usize, stack: Vec<u8> }
impl ZzS {
    pub fn zz_t4(&mut self) -> u8 {
        if self.sp < self.stack.len() {
            self.sp += 5;
            return self.stack[self.sp];
        }
        0
    }
    pub fn zz_t7(&mut self) -> u8 {
        if self.sp < self.stack.len() {
            self.bump();
            return self.stack[self.sp];
        }
        0
    }
    fn bump(&mut self) { self.sp += 3; }
    pub fn zz_t8(&mut self) -> u8 {
        if self.sp < self.stack.len() {
            self.stack.pop();
            return self.stack[self.sp];
        }
        0
    }
}
pub fn zz_t5(v: &Vec<u8>, n: usize) -> u8 {
    let mut s = 0u8;
    for i in 0..n {
        s = s.wrapping_add(v[i]);
    }
    s
}
pub fn zz_t6(v: &mut Vec<u8>, i: usize) -> u8 {
    if i < v.len() {
        v.pop();
        return v[i];
    }
    0
}
pub fn zz_t9(v: &mut Vec<u8>) -> u8 {
    let n = v.len();
    if n > 0 {
        v.clear();
        return v[n - 1];
    }
    0
}
'''
open(tree+"/src/builtins/print.rs","a").write(add)
F = FM.load("default", repo=tree)
shutil.rmtree(tree, ignore_errors=True)
A=P.Audit(F)
for p_ in sorted(F.fns):
    if "zz_t" in p_ or "Zz" in p_:
        for s in A.sites_of(p_):
            A.discharge(s)
            if s.cls in ("index",) or "Bounds" in s.key or "index" in s.key: print(s.key, s.verdict, s.reason[:110])
