"""Probes for C22: the accepted ways of consuming an io::Result.  Each variant rewrites the read_line arm of builtin_read_line\nin a scratch copy so that a failing read is dropped, nulled, turned into a runtime error or swallowed; every one must be\nreported.  Run: python3 tests/c22_consumer_probes.py"""
import sys, subprocess, shutil, re
sys.path.insert(0,'/verif'); sys.setrecursionlimit(10000)
from rules.lib import mutants, facts as FM, core
import importlib
variants = {
 "drop": ('match file.read_line(&mut line) {\n                    Ok(_) => Ok(Rc::new(Object::Str(line))),\n                    Err(e) => Ok(Rc::new(Object::Err(ErrorObj::IO(e)))),\n                }',
          '{ let _ = file.read_line(&mut line); Ok(Rc::new(Object::Str(line))) }'),
 "is_err_null": ('match file.read_line(&mut line) {\n                    Ok(_) => Ok(Rc::new(Object::Str(line))),\n                    Err(e) => Ok(Rc::new(Object::Err(ErrorObj::IO(e)))),\n                }',
          '{ if file.read_line(&mut line).is_err() { return Ok(Rc::new(Object::Null)); } Ok(Rc::new(Object::Str(line))) }'),
 "map_err_string": ('match file.read_line(&mut line) {\n                    Ok(_) => Ok(Rc::new(Object::Str(line))),\n                    Err(e) => Ok(Rc::new(Object::Err(ErrorObj::IO(e)))),\n                }',
          '{ file.read_line(&mut line).map_err(|e| e.to_string())?; Ok(Rc::new(Object::Str(line))) }'),
 "unwrap_or": ('match file.read_line(&mut line) {\n                    Ok(_) => Ok(Rc::new(Object::Str(line))),\n                    Err(e) => Ok(Rc::new(Object::Err(ErrorObj::IO(e)))),\n                }',
          '{ let _n = file.read_line(&mut line).unwrap_or(0); Ok(Rc::new(Object::Str(line))) }'),
 "err_wild_null": ('match file.read_line(&mut line) {\n                    Ok(_) => Ok(Rc::new(Object::Str(line))),\n                    Err(e) => Ok(Rc::new(Object::Err(ErrorObj::IO(e)))),\n                }',
          'match file.read_line(&mut line) {\n                    Ok(_) => Ok(Rc::new(Object::Str(line))),\n                    Err(_) => Ok(Rc::new(Object::Null)),\n                }'),
 "and_then_swallow": ('match file.read_line(&mut line) {\n                    Ok(_) => Ok(Rc::new(Object::Str(line))),\n                    Err(e) => Ok(Rc::new(Object::Err(ErrorObj::IO(e)))),\n                }',
          '{ let r = file.read_line(&mut line).map(|_| ()).or_else(|_| Ok::<(), std::io::Error>(())); match r { Ok(_) => Ok(Rc::new(Object::Str(line))), Err(e) => Ok(Rc::new(Object::Err(ErrorObj::IO(e)))) } }'),
}
src = open(FM.repo_root()+"/src/builtins/functions.rs").read()
for name,(old,new) in variants.items():
    assert old in src, name
    tree = mutants.scratch_copy(FM.repo_root())
    open(tree+"/src/builtins/functions.rs","w").write(src.replace(old,new,1))
    try:
        bad = mutants.run_on("C22", tree)
    except Exception as e:
        print(name, "does not build:", str(e)[:200]); shutil.rmtree(tree, ignore_errors=True); continue
    shutil.rmtree(tree, ignore_errors=True)
    print(name, "->", len(bad), [(r_, d_[:70]) for r_, k_, d_ in bad[:2]])
