"""Probes for C19's allocation bound: variants of the file branch of Pcap::next_packet in which the record buffer is allocated
from a caplen that is not (or not correctly) bounded by the file's snaplen.  Every variant must be reported by C19.
Run: python3 tests/c19_caplen_probes.py"""
import importlib, os, shutil, sys
sys.path.insert(0, os.path.dirname(os.path.dirname(os.path.abspath(__file__))))
sys.setrecursionlimit(10000)
from rules.lib import mutants, facts as FM, core

OLD = '''                if packet_header.caplen > self.header.borrow().snaplen {
                    return Err(io::Error::new(
                        io::ErrorKind::InvalidData,
                        "Invalid caplen value exceeds snaplen",
                    ));
                }

                // Read the payload data based on the caplen from the packet header
                let mut packet_data = vec![0u8; packet_header.caplen as usize];
                reader.borrow_mut().read_exact(&mut packet_data)?;'''
ERR = '''return Err(io::Error::new(io::ErrorKind::InvalidData, "Invalid caplen value exceeds snaplen"));'''
VARIANTS = {
    "wirelen_tested": OLD.replace("packet_header.caplen > self", "packet_header.wirelen > self"),
    "allocate_first": OLD.replace('''                if packet_header.caplen > self.header''', '''                let mut packet_data = vec![0u8; packet_header.caplen as usize];
                if packet_header.caplen > self.header''').replace('''                let mut packet_data = vec![0u8; packet_header.caplen as usize];
                reader.borrow_mut()''', '''                reader.borrow_mut()'''),
    "test_dropped": '''                let mut packet_data = vec![0u8; packet_header.caplen as usize];
                reader.borrow_mut().read_exact(&mut packet_data)?;''',
    "only_when_large_wirelen": OLD.replace("if packet_header.caplen > self.header.borrow().snaplen {", "if packet_header.wirelen > 65535 && packet_header.caplen > self.header.borrow().snaplen {"),
    "other_length_allocated": OLD.replace("vec![0u8; packet_header.caplen as usize]", "vec![0u8; packet_header.wirelen as usize]"),
}


def run():
    src = open(FM.repo_root() + "/src/builtins/pcap.rs").read()
    assert OLD in src
    out = []
    for name, new in VARIANTS.items():
        tree = mutants.scratch_copy(FM.repo_root())
        try:
            open(tree + "/src/builtins/pcap.rs", "w").write(src.replace(OLD, new, 1))
            try:
                bad = mutants.run_on("C19", tree)
            except Exception as e:
                out.append((name, None, "does not build: %s" % str(e)[:120]))
                continue
        finally:
            shutil.rmtree(tree, ignore_errors=True)
        out.append((name, len(bad), "; ".join("%s: %s" % (r_, d_[:60]) for r_, k_, d_ in bad[:2])))
    return out


if __name__ == "__main__":
    miss = 0
    for name, n, det in run():
        print("%-26s %s  %s" % (name, "reported" if n else ("SILENT" if n == 0 else "n/a"), det))
        miss += (n == 0)
    sys.exit(1 if miss else 0)
