#!/bin/sh
# Build the fact extractor and warm the dependency target directory (offline).
set -e
cd "$(dirname "$0")"
export CARGO_NET_OFFLINE=true
(cd driver && cargo build --release --offline)
# one extraction warms .cache/target-default (dependencies) and validates the toolchain
python3 - <<'PY'
import sys
sys.path.insert(0, '.')
from rules.lib import facts
p = facts.extract('default')
print('facts:', p)
PY
